"""Spec-level protobuf wire helpers written independently of both libraries:
varint codec, top-level record splitter and the alternative-encoding
re-encoder used by C02 / C08 / C17."""
import os
import sys

sys.path.insert(0, os.path.join(os.environ.get("PYVC_REPO", "/repo"), "src"))

import struct

from . import corpus as C

VARINT, FIXED64, LEN, SGROUP, EGROUP, FIXED32 = 0, 1, 2, 3, 4, 5

VARINT_KINDS = {"int32", "int64", "uint32", "uint64", "sint32", "sint64", "bool", "enum"}
FIXED32_KINDS = {"float", "fixed32", "sfixed32"}
FIXED64_KINDS = {"double", "fixed64", "sfixed64"}


class WireError(Exception):
    pass


def native_wt(kind):
    if kind in VARINT_KINDS:
        return VARINT
    if kind in FIXED32_KINDS:
        return FIXED32
    if kind in FIXED64_KINDS:
        return FIXED64
    return LEN


def enc_varint(n, pad_to=0):
    n &= (1 << 64) - 1
    out = []
    while True:
        b = n & 0x7F
        n >>= 7
        if n:
            out.append(b | 0x80)
        else:
            out.append(b)
            break
    while len(out) < pad_to:
        out[-1] |= 0x80
        out.append(0)
    return bytes(out)


def dec_varint(buf, pos):
    result = 0
    shift = 0
    start = pos
    while True:
        if pos >= len(buf):
            raise WireError("truncated varint")
        if pos - start >= 10:
            raise WireError("varint too long")
        b = buf[pos]
        pos += 1
        result |= (b & 0x7F) << shift
        shift += 7
        if not b & 0x80:
            return result & ((1 << 64) - 1), pos


def tag(number, wt, pad_to=0):
    return enc_varint((number << 3) | wt, pad_to)


class Rec:
    """One top-level record.  value: int for VARINT, bytes otherwise."""

    __slots__ = ("number", "wt", "value", "raw", "start", "tag_len", "len_len")

    def __init__(self, number, wt, value, raw, start=0, tag_len=0, len_len=0):
        self.number = number
        self.wt = wt
        self.value = value
        self.raw = raw
        self.start = start
        self.tag_len = tag_len
        self.len_len = len_len

    def __repr__(self):
        return "Rec(#%d wt%d %s)" % (self.number, self.wt, self.raw.hex())


def make(number, wt, value, pad_tag=0, pad_len=0, pad_val=0):
    """Build a record from a number, wire type and value."""
    t = tag(number, wt, pad_tag)
    if wt == VARINT:
        raw = t + enc_varint(value, pad_val)
    elif wt == LEN:
        raw = t + enc_varint(len(value), pad_len) + bytes(value)
    elif wt in (FIXED32, FIXED64):
        assert len(value) == (4 if wt == FIXED32 else 8)
        raw = t + bytes(value)
    else:
        raw = t
    return Rec(number, wt, value, raw, 0, len(t), 0)


def split(buf):
    """Split a well-formed encoding into top-level records (raises WireError)."""
    out = []
    pos = 0
    n = len(buf)
    while pos < n:
        start = pos
        key, pos = dec_varint(buf, pos)
        tag_len = pos - start
        number, wt = key >> 3, key & 7
        len_len = 0
        if number == 0:
            raise WireError("field number 0")
        if wt == VARINT:
            value, pos = dec_varint(buf, pos)
        elif wt == FIXED64:
            value = buf[pos : pos + 8]
            pos += 8
        elif wt == FIXED32:
            value = buf[pos : pos + 4]
            pos += 4
        elif wt == LEN:
            p0 = pos
            ln, pos = dec_varint(buf, pos)
            len_len = pos - p0
            value = buf[pos : pos + ln]
            pos += ln
        else:
            raise WireError("wire type %d" % wt)
        if pos > n:
            raise WireError("truncated record")
        out.append(Rec(number, wt, value, buf[start:pos], start, tag_len, len_len))
    return out


def boundaries(buf):
    """Offsets at which a top-level record starts or the buffer ends."""
    recs = split(buf)
    return {r.start for r in recs} | {len(buf)}


def join(recs):
    return b"".join(r.raw for r in recs)


def known_numbers(cls):
    return {f.number for f in C.SCHEMAS[cls]}


def unused_numbers(cls, rnd, k):
    known = known_numbers(cls)
    cands = [n for n in (14, 15, 16, 17, 20, 31, 100, 2047, 2048, 12345, 2**29 - 1) if n not in known]
    return [rnd.choice(cands) for _ in range(k)]


def random_unknown(cls, rnd, k, pad=False):
    """k well-formed records of all four wire types on unused numbers."""
    out = []
    nums = unused_numbers(cls, rnd, k)
    for i, num in enumerate(nums):
        wt = (VARINT, FIXED64, LEN, FIXED32)[(i + rnd.randrange(4)) % 4] if k < 4 else (VARINT, FIXED64, LEN, FIXED32)[i % 4]
        if wt == VARINT:
            v = rnd.choice([0, 1, 300, 2**32, 2**64 - 1])
        elif wt == LEN:
            v = rnd.choice([b"", b"\x00", b"unk", b"\x08\x01", bytes(range(130))])
        else:
            v = bytes(rnd.randrange(256) for _ in range(4 if wt == FIXED32 else 8))
        p = rnd.randint(2, 4) if pad and rnd.random() < 0.5 else 0
        out.append(make(num, wt, v, pad_tag=p, pad_len=p if wt == LEN else 0, pad_val=rnd.randint(2, 10) if (p and wt == VARINT) else 0))
    return out


def interleave(recs, extra, rnd):
    """Insert the records of ``extra`` (keeping their order) at random places."""
    out = list(recs)
    positions = sorted(rnd.randint(0, len(recs)) for _ in extra)
    for off, (pos, r) in enumerate(zip(positions, extra)):
        out.insert(pos + off, r)
    return out


# ------------------------------------------------------------------ reencode

TRANSFORMS = ["permute", "unpack", "mixed-packing", "chunks", "pad", "dup-singular", "oneof-earlier", "unknown"]


def _fields_by_number(cls):
    return {f.number: f for f in C.SCHEMAS[cls]}


def _packable(f):
    return f is not None and f.label == "repeated" and f.kind in C.PACKABLE_KINDS


def _split_packed(kind, payload):
    """Element raw encodings of a packed payload."""
    out = []
    wt = native_wt(kind)
    pos = 0
    if wt == VARINT:
        while pos < len(payload):
            _, p2 = dec_varint(payload, pos)
            out.append(payload[pos:p2])
            pos = p2
    else:
        w = 4 if wt == FIXED32 else 8
        if len(payload) % w:
            raise WireError("bad packed payload")
        out = [payload[i : i + w] for i in range(0, len(payload), w)]
    return out


def _elem_record(f, elem_raw):
    wt = native_wt(f.kind)
    if wt == VARINT:
        v, _ = dec_varint(elem_raw, 0)
        return make(f.number, VARINT, v)
    return make(f.number, wt, elem_raw)


def _order_key(cls, byn, r):
    f = byn.get(r.number)
    if f is not None and f.group:
        return "g:" + f.group
    return r.number


def _alt_member_record(f2):
    k = f2.kind
    if k in VARINT_KINDS:
        return make(f2.number, VARINT, 2 if k in ("sint32", "sint64") else 1)
    if k in FIXED32_KINDS:
        return make(f2.number, FIXED32, struct.pack("<f", 2.5) if k == "float" else struct.pack("<I", 9))
    if k in FIXED64_KINDS:
        return make(f2.number, FIXED64, struct.pack("<d", 2.5) if k == "double" else struct.pack("<Q", 9))
    if k == "message":
        return make(f2.number, LEN, b"\x08\x09")
    return make(f2.number, LEN, b"early")


def _alt_value_record(f, r):
    if r.wt == VARINT:
        return make(f.number, VARINT, r.value ^ 1)
    if r.wt in (FIXED32, FIXED64):
        b = bytearray(r.value)
        b[1] ^= 0x10
        return make(f.number, r.wt, bytes(b))
    return make(f.number, LEN, b"dup" if r.value != b"dup" else b"dux")


def _pad_record(f, r, rnd):
    pt = rnd.randint(r.tag_len + 1, 5) if r.tag_len < 5 else 0
    if r.wt == VARINT:
        return make(r.number, VARINT, r.value, pad_tag=pt, pad_val=rnd.randint(1, 10))
    if r.wt == LEN:
        payload = r.value
        if _packable(f) and native_wt(f.kind) == VARINT:
            elems = _split_packed(f.kind, payload)
            payload = b"".join(enc_varint(dec_varint(e, 0)[0], rnd.randint(1, 10)) for e in elems)
        return make(r.number, LEN, payload, pad_tag=pt, pad_len=rnd.randint(1, 5))
    return make(r.number, r.wt, r.value, pad_tag=pt)


def reencode(raw, rnd, cls, only=None):
    """Alternative legal encoding of ``raw`` (a reference serialisation of a
    message of schema ``cls``).  ``only``: list of transform names to apply
    (default: a random subset).  Returns (bytes, applied-transform-names)."""
    byn = _fields_by_number(cls)
    recs = split(raw)
    todo = list(only) if only is not None else [t for t in TRANSFORMS if rnd.random() < 0.5]
    applied = []

    if "unpack" in todo or "chunks" in todo:
        out = []
        for r in recs:
            f = byn.get(r.number)
            if _packable(f) and r.wt == LEN:
                elems = _split_packed(f.kind, r.value)
                if "chunks" in todo and len(elems) >= 2 and ("unpack" not in todo or rnd.random() < 0.5):
                    cut = sorted({rnd.randint(1, len(elems) - 1) for _ in range(rnd.randint(1, 2))})
                    prev = 0
                    for c in cut + [len(elems)]:
                        out.append(make(f.number, LEN, b"".join(elems[prev:c])))
                        prev = c
                    applied.append("chunks")
                    continue
                if "unpack" in todo and elems:
                    out.extend(_elem_record(f, e) for e in elems)
                    applied.append("unpack")
                    continue
            out.append(r)
        recs = out

    if "mixed-packing" in todo:
        # some elements as individual records, the rest as one packed record
        out = []
        for r in recs:
            f = byn.get(r.number)
            if _packable(f) and r.wt == LEN:
                elems = _split_packed(f.kind, r.value)
                if len(elems) >= 2:
                    k = rnd.randint(1, len(elems) - 1)
                    head = [_elem_record(f, e) for e in elems[:k]]
                    tail = [make(f.number, LEN, b"".join(elems[k:]))]
                    if rnd.random() < 0.5:
                        out.extend(head + tail)
                    else:
                        out.extend([make(f.number, LEN, b"".join(elems[:k]))] + [_elem_record(f, e) for e in elems[k:]])
                    applied.append("mixed-packing")
                    continue
            out.append(r)
        recs = out

    if "dup-singular" in todo:
        out = []
        for r in recs:
            f = byn.get(r.number)
            if (
                f is not None
                and f.label in ("singular", "optional")
                and f.kind not in ("message", "map")
                and r.wt == native_wt(f.kind)
                and rnd.random() < 0.7
            ):
                out.insert(rnd.randint(0, len(out)), _alt_value_record(f, r))
                applied.append("dup-singular")
            out.append(r)
        recs = out

    if "oneof-earlier" in todo:
        out = []
        for r in recs:
            f = byn.get(r.number)
            if f is not None and f.group:
                others = [g for g in C.SCHEMAS[cls] if g.group == f.group and g.name != f.name]
                if others:
                    out.insert(rnd.randint(0, len(out)), _alt_member_record(rnd.choice(others)))
                    applied.append("oneof-earlier")
            out.append(r)
        recs = out

    if "unknown" in todo:
        recs = interleave(recs, random_unknown(cls, rnd, rnd.randint(1, 5)), rnd)
        applied.append("unknown")

    if "permute" in todo and len(recs) > 1:
        queues = {}
        order = []
        for r in recs:
            k = _order_key(cls, byn, r)
            if k not in queues:
                queues[k] = []
                order.append(k)
            queues[k].append(r)
        out = []
        pending = [k for k in order for _ in queues[k]]
        rnd.shuffle(pending)
        for k in pending:
            out.append(queues[k].pop(0))
        if [id(x) for x in out] != [id(x) for x in recs]:
            applied.append("permute")
        recs = out

    if "pad" in todo and recs:
        recs = [_pad_record(byn.get(r.number), r, rnd) if rnd.random() < 0.8 else r for r in recs]
        applied.append("pad")

    return join(recs), sorted(set(applied))
