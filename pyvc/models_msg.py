"""Object model of a betterproto Message with a SYMBOLIC class (DESIGN §2.6).

A message type enters the runtime only as its field table; the proofs treat that table as symbolic:
uninterpreted functions of the field index i in [0, NF).  "for every message type" = "for every table
satisfying WF".  The instance state is (raw, gc, sow, unk) + a heap of list / dict contents.
"""
import ast
import z3

from .sym import SV, NONE, IntS, BoolS, BytesS, StrS, PyObj, sv_int, sv_bool, sv_bytes, sv_str, sv_tuple, to_obj, concrete_int
from .exec import Unsupported, Raised, fresh, State
from .speclib import OBJSEQ

RAW_S = z3.ArraySort(IntS, PyObj)
GC_S = z3.ArraySort(StrS, IntS)
HEAP_S = z3.ArraySort(IntS, OBJSEQ)

F_name = z3.Function("F_name", IntS, StrS)
F_number = z3.Function("F_number", IntS, IntS)
F_ptype = z3.Function("F_ptype", IntS, StrS)
F_group = z3.Function("F_group", IntS, StrS)      # "" = not in a oneof group
F_wraps = z3.Function("F_wraps", IntS, StrS)      # "" = no wrapper
F_optional = z3.Function("F_optional", IntS, BoolS)
F_mapk = z3.Function("F_mapk", IntS, StrS)
F_mapv = z3.Function("F_mapv", IntS, StrS)
F_dkind = z3.Function("F_dkind", IntS, StrS)      # kind of the default generator: list dict none message datetime timedelta float str bytes int
DEFOBJ = z3.Function("DEFOBJ", IntS, PyObj)       # the materialised default of field i
IDX_OF_NUMBER = z3.Function("IDX_OF_NUMBER", IntS, IntS)   # field index for a wire number, -1 if unknown
NF = z3.Int("NF")
MSG_SOW = z3.Function("MSG_SOW", PyObj, BoolS)    # value._serialized_on_wire of a nested message value

EMPTY = z3.Empty(BytesS)


def group_obj(i):
    return z3.If(F_group(i) == z3.StringVal(""), PyObj.PNone, PyObj.PStr(F_group(i)))


def wraps_obj(i):
    return z3.If(F_wraps(i) == z3.StringVal(""), PyObj.PNone, PyObj.PStr(F_wraps(i)))


def val_of(raw, i):
    return z3.If(raw[i] == PyObj.PPlaceholder, DEFOBJ(i), raw[i])


def cn_of(hl, hdk, v):
    return z3.If(PyObj.is_PList(v), z3.Length(hl[PyObj.plist(v)]),
                 z3.If(PyObj.is_PDict(v), z3.Length(hdk[PyObj.pdict(v)]), z3.IntVal(0)))


class MsgPlugin:
    SPEC_NAMES = {"NF", "F_number", "F_ptype", "F_group", "F_wraps", "F_optional", "F_dkind", "F_mapk", "F_mapv",
                  "VAL", "RAWV", "SEL", "INGROUP", "READABLE", "WIREUPTO", "WIRE", "EMIT_AT", "WF", "TY", "GCV",
                  "HEAP_LIST", "HEAP_DK", "HEAP_DV", "CN", "XS", "KS", "VS", "SOWV", "FNAME_IDX", "RAWARR", "GCARR",
                  "TY_AT", "WF_AT"}

    SPEC_CONSTS = {"NF"}

    def __init__(self):
        self._wire_fn = None

    # ---------------------------------------------------------------- state access
    def cells(self, st, key="self"):
        return (st.heap[(key, "raw")].t, st.heap[(key, "gc")].t,
                st.heap[("$H", "list")].t, st.heap[("$H", "dk")].t, st.heap[("$H", "dv")].t)

    def make_model_param(self, ex, st, p, model):
        if model != "msg":
            return None
        key = p
        st.heap[(key, "raw")] = SV("arr", z3.Const(f"{p}.raw", RAW_S))
        st.heap[(key, "gc")] = SV("arr", z3.Const(f"{p}.gc", GC_S))
        st.heap[(key, "_serialized_on_wire")] = sv_bool(z3.Bool(f"{p}.sow"))
        st.heap[(key, "_unknown_fields")] = sv_bytes(z3.Const(f"{p}.unk", BytesS))
        if ("$H", "list") not in st.heap:
            st.heap[("$H", "list")] = SV("arr", z3.Const("H.list", HEAP_S))
            st.heap[("$H", "dk")] = SV("arr", z3.Const("H.dk", HEAP_S))
            st.heap[("$H", "dv")] = SV("arr", z3.Const("H.dv", HEAP_S))
        for k in ("raw", "gc"):
            ex.inputs[f"{p}.{k}"] = st.heap[(key, k)].t
        ex.inputs[f"{p}.sow"] = st.heap[(key, "_serialized_on_wire")].t
        ex.inputs[f"{p}.unk"] = st.heap[(key, "_unknown_fields")].t
        ex.inputs["NF"] = NF
        st.assume(NF >= 0)
        return SV("ref", key, "msg")

    # ---------------------------------------------------------------- the per-message encoding
    def emit_at(self, ex, st, raw, gc, hl, hdk, hdv, i):
        v = val_of(raw, i)
        ingroup = F_group(i) != z3.StringVal("")
        sel = z3.And(ingroup, gc[F_group(i)] == i)
        spec = ex.eng.spec
        args = [sv_int(F_number(i)), sv_str(F_ptype(i)), sv_str(F_wraps(i)), sv_bool(ingroup), sv_bool(F_optional(i)),
                sv_str(F_dkind(i)), sv_bool(sel), SV("obj", v), sv_bool(MSG_SOW(v)), sv_int(cn_of(hl, hdk, v)),
                SV("objseq", hl[PyObj.plist(v)]), SV("objseq", hdk[PyObj.pdict(v)]), SV("objseq", hdv[PyObj.pdict(v)]),
                sv_str(F_mapk(i)), sv_str(F_mapv(i))]
        e = spec.call(ex, "EMITC", args, st).t
        # an unselected member of a oneof group is not readable (AttributeError) and contributes nothing
        return z3.If(z3.And(ingroup, gc[F_group(i)] != i), EMPTY, e)

    def wire_fn(self, ex, st):
        if self._wire_fn is None:
            f = z3.RecFunction("WIREUPTO", RAW_S, GC_S, HEAP_S, HEAP_S, HEAP_S, IntS, BytesS)
            raw, gc = z3.Const("raw!w", RAW_S), z3.Const("gc!w", GC_S)
            hl, hdk, hdv = z3.Const("hl!w", HEAP_S), z3.Const("hdk!w", HEAP_S), z3.Const("hdv!w", HEAP_S)
            k = z3.Int("k!w")
            body = z3.If(k <= 0, EMPTY, z3.Concat(f(raw, gc, hl, hdk, hdv, k - 1), self.emit_at(ex, st, raw, gc, hl, hdk, hdv, k - 1)))
            z3.RecAddDefinition(f, [raw, gc, hl, hdk, hdv, k], body)
            self._wire_fn = f
        return self._wire_fn

    def ty_at(self, ex, st, raw, hl, hdk, hdv, i):
        v = val_of(raw, i)
        args = [sv_str(F_ptype(i)), sv_str(F_wraps(i)), sv_bool(F_optional(i)), sv_str(F_dkind(i)), SV("obj", v),
                sv_int(cn_of(hl, hdk, v)), SV("objseq", hl[PyObj.plist(v)]), SV("objseq", hdk[PyObj.pdict(v)]),
                SV("objseq", hdv[PyObj.pdict(v)]), sv_str(F_mapk(i)), sv_str(F_mapv(i))]
        return ex.eng.spec.call(ex, "TYFIELD", args, st).t

    def wf_at(self, ex, st, i, hl, hdk, hdv):
        v = DEFOBJ(i)
        isdef = ex.eng.spec.call(ex, "ISDEF", [sv_str(F_dkind(i)), SV("obj", v), sv_int(cn_of(hl, hdk, v))], st).t
        return z3.And(self.wf_per(ex, st, i), isdef, z3.Implies(PyObj.is_PMsg(v), z3.Not(MSG_SOW(v))))

    def wf_per(self, ex, st, i):
        S = z3.StringVal
        known = lambda t: ex.eng.spec.call(ex, "KNOWN_KIND", [sv_str(t)], st).t
        dk = F_dkind(i)
        t = F_ptype(i)
        scalar_dk = z3.If(z3.Or(t == S("float"), t == S("double")), S("float"),
                    z3.If(t == S("string"), S("str"), z3.If(t == S("bytes"), S("bytes"), S("int"))))
        per = z3.And(
            F_number(i) >= 1, F_number(i) < 2 ** 29, known(t),
            IDX_OF_NUMBER(F_number(i)) == i,
            (t == S("map")) == (dk == S("dict")),
            z3.Implies(t == S("map"), z3.And(known(F_mapk(i)), known(F_mapv(i)), F_mapv(i) != S("map"), F_mapk(i) != S("map"),
                                             F_mapk(i) != S("message"), F_wraps(i) == S(""))),
            z3.Implies(F_wraps(i) != S(""), t == S("message")),
            z3.Or(dk == S("list"), dk == S("dict"), dk == S("none"), dk == S("message"), dk == S("datetime"),
                  dk == S("timedelta"), dk == S("float"), dk == S("str"), dk == S("bytes"), dk == S("int")),
            # singular fields: optional / wrapper fields default to None, scalars to their zero value
            z3.Implies(z3.And(dk != S("list"), dk != S("dict")),
                       z3.If(z3.Or(F_optional(i), F_wraps(i) != S("")), dk == S("none"),
                             z3.If(t == S("message"), z3.Or(dk == S("message"), dk == S("datetime"), dk == S("timedelta")),
                                   dk == scalar_dk))),
            # the materialised default is a default
            DEFOBJ(i) != PyObj.PPlaceholder,
        )
        return per

    def wf(self, ex, st):
        """well-formedness of the symbolic field table (what ProtoClassMetadata derives from the dataclass)"""
        i, j = z3.Int("i!wf"), z3.Int("j!wf")
        per = self.wf_per(ex, st, i)
        uniq = z3.Implies(z3.And(0 <= i, i < NF, 0 <= j, j < NF, i != j),
                          z3.And(F_number(i) != F_number(j), F_name(i) != F_name(j)))
        idx = z3.ForAll([j], z3.Or(IDX_OF_NUMBER(j) == -1,
                                   z3.And(0 <= IDX_OF_NUMBER(j), IDX_OF_NUMBER(j) < NF, F_number(IDX_OF_NUMBER(j)) == j)))
        return z3.And(z3.ForAll([i], z3.Implies(z3.And(0 <= i, i < NF), per)), z3.ForAll([i, j], uniq), idx)

    def defobj_facts(self, ex, st, hl, hdk, hdv):
        i = z3.Int("i!df")
        v = DEFOBJ(i)
        isdef = ex.eng.spec.call(ex, "ISDEF", [sv_str(F_dkind(i)), SV("obj", v), sv_int(cn_of(hl, hdk, v))], st).t
        return z3.ForAll([i], z3.Implies(z3.And(0 <= i, i < NF),
                                         z3.And(isdef, z3.Implies(PyObj.is_PMsg(v), z3.Not(MSG_SOW(v))))))

    # ---------------------------------------------------------------- spec-language names
    def spec_has(self, name):
        return name in self.SPEC_NAMES

    def spec_call(self, ex, name, pos, st):
        key = "self"
        if name == "NF":
            return sv_int(NF)
        simple = {"F_number": (F_number, sv_int), "F_ptype": (F_ptype, sv_str), "F_group": (F_group, sv_str),
                  "F_wraps": (F_wraps, sv_str), "F_optional": (F_optional, sv_bool), "F_dkind": (F_dkind, sv_str),
                  "F_mapk": (F_mapk, sv_str), "F_mapv": (F_mapv, sv_str)}
        if name in simple:
            f, mk = simple[name]
            return mk(f(ex.as_int(pos[0], st)))
        raw, gc, hl, hdk, hdv = self.cells(st, key)
        if name == "VAL":
            return SV("obj", val_of(raw, ex.as_int(pos[0], st)))
        if name == "RAWV":
            return SV("obj", raw[ex.as_int(pos[0], st)])
        if name == "RAWARR":
            return SV("arr", raw)
        if name == "GCARR":
            return SV("arr", gc)
        if name == "GCV":
            return sv_int(gc[pos[0].t])
        if name == "INGROUP":
            return sv_bool(F_group(ex.as_int(pos[0], st)) != z3.StringVal(""))
        if name == "SEL":
            i = ex.as_int(pos[0], st)
            return sv_bool(z3.And(F_group(i) != z3.StringVal(""), gc[F_group(i)] == i))
        if name == "READABLE":
            i = ex.as_int(pos[0], st)
            return sv_bool(z3.Or(F_group(i) == z3.StringVal(""), gc[F_group(i)] == i))
        if name == "WIREUPTO":
            f = self.wire_fn(ex, st)
            return sv_bytes(f(raw, gc, hl, hdk, hdv, ex.as_int(pos[0], st)))
        if name == "WIRE":
            f = self.wire_fn(ex, st)
            return sv_bytes(z3.Concat(f(raw, gc, hl, hdk, hdv, NF), st.heap[(key, "_unknown_fields")].t))
        if name == "EMIT_AT":
            return sv_bytes(self.emit_at(ex, st, raw, gc, hl, hdk, hdv, ex.as_int(pos[0], st)))
        if name == "WF":
            return sv_bool(z3.And(self.wf(ex, st), self.defobj_facts(ex, st, hl, hdk, hdv)))
        if name == "TY":
            i = z3.Int("i!ty")
            return sv_bool(z3.ForAll([i], z3.Implies(z3.And(0 <= i, i < NF), self.ty_at(ex, st, raw, hl, hdk, hdv, i))))
        if name == "TY_AT":
            return sv_bool(self.ty_at(ex, st, raw, hl, hdk, hdv, ex.as_int(pos[0], st)))
        if name == "WF_AT":
            return sv_bool(self.wf_at(ex, st, ex.as_int(pos[0], st), hl, hdk, hdv))
        if name == "HEAP_LIST":
            return SV("arr", hl)
        if name == "HEAP_DK":
            return SV("arr", hdk)
        if name == "HEAP_DV":
            return SV("arr", hdv)
        if name == "CN":
            return sv_int(cn_of(hl, hdk, to_obj(pos[0])))
        if name == "XS":
            return SV("objseq", hl[PyObj.plist(to_obj(pos[0]))])
        if name == "KS":
            return SV("objseq", hdk[PyObj.pdict(to_obj(pos[0]))])
        if name == "VS":
            return SV("objseq", hdv[PyObj.pdict(to_obj(pos[0]))])
        if name == "SOWV":
            return sv_bool(MSG_SOW(to_obj(pos[0])))
        if name == "FNAME_IDX":
            return sv_int(pos[0].t)
        raise Unsupported(f"spec name {name}")

    # ---------------------------------------------------------------- attribute protocol
    def getattr_hook(self, ex, st, v, attr):
        if v.extra != "msg":
            return None
        if attr == "_betterproto":
            return [(st, SV("bp", v.t))]
        if attr == "_group_current":
            return [(st, SV("gcdict", v.t))]
        if attr in ("_serialized_on_wire", "_unknown_fields"):
            return None
        if attr == "__class__":
            return [(st, SV("msgcls", v.t))]
        if (v.t, attr) in st.heap:
            return None
        return [(st, SV("func", ("method", v, attr)))]

    def attr_hook(self, ex, st, v, attr):
        if v.kind == "bp":
            if attr in ("meta_by_field_name", "default_gen", "cls_by_field", "field_name_by_number",
                        "oneof_group_by_field", "oneof_field_by_group", "sorted_field_names"):
                return [(st, SV("bpattr", (v.t, attr)))]
        if v.kind == "bpattr":
            return [(st, SV("func", ("method", v, attr)))]
        if v.kind == "gcdict":
            return [(st, SV("func", ("method", v, attr)))]
        if v.kind == "fname":
            return [(st, SV("func", ("method", v, attr)))]
        return None

    def value_attr_hook(self, ex, st, v, attr):
        if v.kind == "obj" and attr == "_serialized_on_wire":
            return [(st, sv_bool(MSG_SOW(v.t)))]
        return None

    def truth_hook(self, ex, v):
        if v.kind == "fname":
            return v.t != -1
        if v.kind == "maptypes":
            return F_ptype(v.t) == z3.StringVal("map")
        if v.kind == "arr":
            return None
        return None

    def metarec(self, i):
        return SV("rec", {"number": sv_int(F_number(i)), "proto_type": sv_str(F_ptype(i)), "group": SV("obj", group_obj(i)),
                          "wraps": SV("obj", wraps_obj(i)), "optional": sv_bool(F_optional(i)),
                          "map_types": SV("maptypes", i)}, "FieldMetadata")

    def index_hook(self, ex, seq, idx, st):
        if seq.kind == "maptypes":
            c = concrete_int(ex.as_int(idx, st))
            if c not in (0, 1):
                raise Unsupported("map_types index")
            return [(st, sv_str((F_mapk if c == 0 else F_mapv)(seq.t)))]
        if seq.kind == "bpattr" and seq.t[1] == "meta_by_field_name" and idx.kind == "fname":
            ex.oblige(st, f"key-present@{ex.cur_line}", z3.And(idx.t >= 0, idx.t < NF), "safety")
            return [(st, self.metarec(idx.t))]
        return None

    def iter_hook(self, ex, st, itv):
        if itv.kind == "iter_fields":
            return NF, (lambda k: sv_tuple([SV("fname", k), self.metarec(k)]))
        if itv.kind == "iter_fieldnames":
            return NF, (lambda k: SV("fname", k))
        raw, gc, hl, hdk, hdv = self.cells(st)
        if itv.kind == "obj":
            # iteration over a dynamically typed value: a list by the path condition
            ex.oblige(st, f"type[iterable is a list]@{ex.cur_line}", PyObj.is_PList(itv.t), "safety")
            xs = hl[PyObj.plist(itv.t)]
            return z3.Length(xs), (lambda k: SV("obj", xs[k]))
        if itv.kind == "iter_dictitems":
            ks, vs = hdk[PyObj.pdict(itv.t)], hdv[PyObj.pdict(itv.t)]
            return z3.Length(ks), (lambda k: sv_tuple([SV("obj", ks[k]), SV("obj", vs[k])]))
        return None

    def call_method(self, ex, recv, name, pos, kw, st, node):
        if recv.kind == "bpattr" and recv.t[1] == "meta_by_field_name" and name == "items":
            return [(st, SV("iter_fields", recv.t[0]))]
        if recv.kind == "gcdict" and name == "get":
            g = pos[0]
            raw, gc, hl, hdk, hdv = self.cells(st, recv.t)
            gs = ex.coerce(g, "str", st, "group name")
            return [(st, SV("fname", gc[gs.t]))]
        if recv.kind == "obj" and name == "items" and not pos:
            ex.oblige(st, f"type[.items() receiver is a dict]@{ex.cur_line}", PyObj.is_PDict(recv.t), "safety")
            return [(st, SV("iter_dictitems", recv.t))]
        if recv.kind == "ref" and recv.extra == "msg":
            if name == "_get_field_default":
                fn = pos[0] if pos else kw["field_name"]
                return [(st, SV("defaultof", fn.t))]
            q = f"betterproto.Message.{name}"
            if q in ex.eng.contracts:
                return list(ex.call_repo(q, pos, kw, st, node, recv=recv))
            raise Unsupported(f"message method {name} has no contract")
        return None

    def call_builtin(self, ex, name, pos, kw, st, node):
        if name == "getattr" and len(pos) == 2 and pos[0].kind == "ref" and pos[0].extra == "msg" and pos[1].kind == "fname":
            return self.model_getattr(ex, st, pos[0], pos[1].t)
        if name == "len" and pos and pos[0].kind == "ref" and pos[0].extra == "msg":
            return list(ex.call_repo("betterproto.Message.__len__", [], {}, st, node, recv=pos[0]))
        if name == "bytes" and pos and pos[0].kind == "ref" and pos[0].extra == "msg":
            return list(ex.call_repo("betterproto.Message.__bytes__", [], {}, st, node, recv=pos[0]))
        return None

    def model_getattr(self, ex, st, selfv, i):
        """contract of Message.__getattribute__ for a field name (DESIGN A.4): AttributeError for an unselected
        oneof member; otherwise the stored value, materialising the default (raw' = raw[i := default])."""
        ex.assumption("C-GETATTR")
        raw, gc, hl, hdk, hdv = self.cells(st, selfv.t)
        out = []
        unsel = z3.And(F_group(i) != z3.StringVal(""), gc[F_group(i)] != i)
        s_r = st.clone()
        s_r.assume(unsel)
        if ex.feasible(s_r):
            out.append((s_r, Raised(SV("exc", "AttributeError"))))
        s_n = st.clone()
        s_n.assume(z3.Not(unsel))
        v = val_of(raw, i)
        s_n.heap[(selfv.t, "raw")] = SV("arr", z3.Store(raw, i, v))
        if ex.feasible(s_n):
            out.append((s_n, SV("obj", v)))
        return out

    def compare_hook(self, ex, op, a, b, st):
        if isinstance(op, (ast.Eq, ast.NotEq)):
            r = None
            if a.kind == "defaultof" or b.kind == "defaultof":
                d, v = (a, b) if a.kind == "defaultof" else (b, a)
                raw, gc, hl, hdk, hdv = self.cells(st)
                vo = to_obj(v)
                r = ex.eng.spec.call(ex, "ISDEF", [sv_str(F_dkind(d.t)), SV("obj", vo), sv_int(cn_of(hl, hdk, vo))], st).t
            elif a.kind == "fname" and b.kind == "fname":
                r = a.t == b.t
            elif a.kind == "fname" and b.kind == "none" or b.kind == "fname" and a.kind == "none":
                f = a if a.kind == "fname" else b
                r = f.t == -1
            if r is not None:
                return z3.Not(r) if isinstance(op, ast.NotEq) else r
        if isinstance(op, (ast.Is, ast.IsNot)) and (a.kind == "fname" and b.kind == "none" or b.kind == "fname" and a.kind == "none"):
            f = a if a.kind == "fname" else b
            r = f.t == -1
            return z3.Not(r) if isinstance(op, ast.IsNot) else r
        return None

    def havoc_hook(self, ex, st, refs):
        return None


MSG_ASSUMPTIONS = {
    "C-GETATTR": "getattr(self, field) behaves as the contract of Message.__getattribute__ (DESIGN A.4): AttributeError iff the field is an unselected oneof member, else the stored value with the default materialised in place",
    "A-DEFAULT-CANON": "the read-only proofs identify the freshly created default of a field with one canonical default object per field (DEFOBJ(i)); sound for code that does not mutate defaults",
    "A-OBJ": "dataclass instances are plain __dict__ objects; field access goes through __getattribute__/__setattr__ only",
}
