"""Contracts for the Timestamp / Duration converters (C15; used by C01 C04 C05)."""
from pyvc.contracts import FN, LOOP, LEMMA
from pyvc.models_time import TimePlugin

DEPENDS = []
SPEC_MODULES = ("wire", "time")
PLUGINS = [TimePlugin()]

LEMMAS = [
    LEMMA("TS_NORMALISED", {"us": "int"}, [], "0 <= TS_NANOS(us) < 1000000000 and TS_NANOS(us) % 1000 == 0", props=["C15"]),
    LEMMA("TS_ROUNDTRIP", {"us": "int"}, [], "TS_SEC(us) * 1000000 + TS_NANOS(us) // 1000 == us", props=["C15", "C01", "C04", "C05"],
          notes="decoding the (seconds, nanos) pair of an instant gives the instant back, at microsecond resolution"),
    LEMMA("DUR_NORMALISED", {"us": "int"}, [],
          "-1000000000 < DUR_NANOS(us) < 1000000000 and DUR_NANOS(us) % 1000 == 0 and DUR_SEC(us) * DUR_NANOS(us) >= 0"
          " and implies(us >= 0, DUR_SEC(us) >= 0 and DUR_NANOS(us) >= 0) and implies(us <= 0, DUR_SEC(us) <= 0 and DUR_NANOS(us) <= 0)",
          props=["C15"], notes="seconds and nanos never have opposite signs"),
    LEMMA("DUR_ROUNDTRIP", {"us": "int"}, [], "DUR_SEC(us) * 1000000 + DUR_NANOS(us) // 1000 == us", props=["C15", "C01", "C04", "C05"]),
]

CONTRACTS = [
    FN("betterproto.datetime_default_gen", inline=True),
    FN("betterproto._Timestamp.from_datetime", types={"cls": "model:msgcls", "dt": "model:datetime"}, returns="any",
       ensures=[("C15-exact-pair", "result.seconds == TS_SEC(US(dt)) and result.nanos == TS_NANOS(US(dt))")],
       top=["C15-exact-pair"], props=["C15", "C01", "C02", "C04", "C05"]),
    FN("betterproto._Timestamp.to_datetime", types={"self": "model:tsmsg"}, returns="any",
       requires=[("normalised", "0 <= self.nanos < 1000000000")],
       ensures=[("C15-instant", "US(result) == self.seconds * 1000000 + self.nanos // 1000")],
       top=["C15-instant"], props=["C15", "C01", "C04", "C05"]),
    FN("betterproto._Duration.from_timedelta", types={"cls": "model:msgcls", "delta": "model:timedelta", "_1_microsecond": "model:timedelta"},
       returns="any",
       requires=[("default-argument", "US(_1_microsecond) == 1")],
       ensures=[("C15-exact-pair", "result.seconds == DUR_SEC(US(delta)) and result.nanos == DUR_NANOS(US(delta))")],
       top=["C15-exact-pair"], props=["C15", "C01", "C02", "C04", "C05"]),
    FN("betterproto._Duration.to_timedelta", types={"self": "model:tsmsg"}, returns="any",
       requires=[("microsecond-resolution", "-1000000000 < self.nanos < 1000000000 and self.nanos % 1000 == 0"),
                 ("in-range", "-315576000001 < self.seconds < 315576000001")],
       ensures=[("C15-span", "US(result) == self.seconds * 1000000 + self.nanos // 1000")],
       top=["C15-span"], props=["C15", "C01", "C04", "C05"]),
]
