"""C03 — plugin output faithfully implements the schema (translation validity)."""
AREAS = ["pluginfield", "names"]
LEVEL = "other"
EXPLANATION = (
    "Under contract: (a) the per-field translation - is_map, is_oneof and the FieldCompiler / OneOfFieldCompiler / "
    "MapEntryCompiler properties (optional, repeated, packed, field_type, py_type, field_wraps, annotation, "
    "betterproto_field_args, get_field_string) over a SYMBOLIC FieldDescriptorProto (every type number, label, "
    "proto3_optional, any names and numbers) against spec/plugin.py: the generated declaration text carries the schema's "
    "number, kind, wrapped scalar, proto3 presence and oneof group; (b) the name mapping (valid non-keyword identifiers). "
    "The rest of the translation (descriptor traversal in the parser, message / enum / service compilers, Jinja "
    "templates, import collection, formatting) manipulates a large object graph and is outside the proved subset; the "
    "property as a whole is decided by the bounded "
    "end-to-end stand-in: schemas from a grammar-based generator are compiled with the REAL plugin, imported, and every "
    "class / field / enum member is compared with the schema; plus the complete comparison of the bundled descriptor / "
    "plugin classes with google.protobuf's descriptors (exhaustive, finite).")
ASSUMED = ["A-RUFF", "only the per-field translation is proved; descriptor traversal, message/enum/service compilers and templates: bounded translation validation on generated schemas"]
from pyvc.check import external_bounded
BOUNDED = [external_bounded("plugin-end-to-end:C03", "standin_plugin.run", ["C03", "--n", "6"], ["C03", "--n", "40"],
                            "real plugin on schemas from a grammar-based generator + complete comparison of bundled descriptor classes")]
