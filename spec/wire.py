"""Spec functions for the protobuf wire format (the oracle).

Transcribed from the protobuf encoding specification / the property statements, NOT from the code.
Pure recursive subset: translated to z3 define-fun-rec by pyvc.speclib and run natively for replay,
bounded stand-ins and the spec-vs-reference differential.
"""


def B(x):
    """single byte (native reading; symbolic reading is seq.unit)"""
    return bytes([x])


def U64(x: int) -> int:
    """two's-complement reinterpretation of an integer as an unsigned 64-bit value"""
    return x % 18446744073709551616


def VARINT(v: int) -> bytes:
    """canonical base-128 varint of a non-negative integer"""
    if v < 128:
        return B(v)
    return B(128 + v % 128) + VARINT(v // 128)


def NB(v: int) -> int:
    """number of bytes of the canonical varint of v >= 0"""
    if v < 128:
        return 1
    return 1 + NB(v // 128)


def VDEC(bs: bytes) -> int:
    """value denoted by a varint byte string: sum of the low 7 bits of byte i times 128**i"""
    if len(bs) == 0:
        return 0
    return bs[0] % 128 + 128 * VDEC(bs[1:])


def CONT(bs: bytes) -> bool:
    """every byte has the continuation bit set"""
    if len(bs) == 0:
        return True
    return bs[0] >= 128 and CONT(bs[1:])


def VWF(bs: bytes) -> bool:
    """bs is one complete (not necessarily minimal) varint of at most 10 bytes"""
    return 1 <= len(bs) <= 10 and CONT(bs[:len(bs) - 1]) and bs[len(bs) - 1] < 128


def ZZ(v: int) -> int:
    """zig-zag map of a signed integer"""
    if v >= 0:
        return 2 * v
    return -2 * v - 1


def UNZZ(u: int) -> int:
    if u % 2 == 0:
        return u // 2
    return -((u + 1) // 2)


def SX(u: int, n: int) -> int:
    """sign extension of the low n bits of u (n in {32, 64})"""
    m = u % (1 << n)
    if m >= (1 << (n - 1)):
        return m - (1 << n)
    return m
