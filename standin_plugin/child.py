"""Runs in a FRESH interpreter (one per generated tree):  python child.py <mode> <out_dir> <spec.json>

modes
  dump    import every generated module, dump betterproto metadata / hints / stubs
  encode  dump + build instances from value recipes and print bytes / JSON
  grpc    dump + drive stub <-> server base over grpclib.testing.ChannelFor

Prints exactly one JSON object on stdout.
"""
import sys
import os

_here = os.path.dirname(os.path.abspath(__file__))
sys.path[:] = [p for p in sys.path if os.path.abspath(p or ".") != _here]
mode, out_dir, spec_path = sys.argv[1], sys.argv[2], sys.argv[3]
sys.path.insert(0, out_dir)
sys.path.insert(0, os.environ.get("PYVC_SRC", "/repo/src"))

import asyncio  # noqa: E402
import dataclasses  # noqa: E402
import importlib  # noqa: E402
import inspect  # noqa: E402
import json  # noqa: E402
import traceback  # noqa: E402
import types  # noqa: E402
import typing  # noqa: E402
import warnings  # noqa: E402
from datetime import datetime, timedelta, timezone  # noqa: E402

warnings.simplefilter("ignore")
_real_stdout = sys.stdout
sys.stdout = sys.stderr  # anything printed by imported code must not corrupt the JSON

spec = json.load(open(spec_path))
import betterproto  # noqa: E402


def norm(s):
    return s.replace("_", "").lower()


def short_exc(e):
    return "%s: %s" % (type(e).__name__, str(e)[:300])


# ------------------------------------------------------------------ canonical hints
def canon(t):
    if t is type(None):
        return "None"
    origin = typing.get_origin(t)
    if origin is typing.Union or isinstance(t, types.UnionType):
        args = [a for a in typing.get_args(t)]
        non = [canon(a) for a in args if a is not type(None)]
        has_none = len(non) != len(args)
        flat = []
        for a in non:
            if isinstance(a, list) and a and a[0] == "optional":
                has_none = True
                flat.append(a[1])
            else:
                flat.append(a)
        inner = flat[0] if len(flat) == 1 else ["union"] + flat
        return ["optional", inner] if has_none else inner
    if origin in (list, typing.List):
        return ["list"] + [canon(a) for a in typing.get_args(t)]
    if origin in (dict, typing.Dict):
        return ["dict"] + [canon(a) for a in typing.get_args(t)]
    if origin is not None:
        return [getattr(origin, "__name__", str(origin))] + [canon(a) for a in typing.get_args(t)]
    if isinstance(t, type):
        if t.__module__ == "builtins":
            return t.__name__
        if t is datetime:
            return "datetime"
        if t is timedelta:
            return "timedelta"
        return {"mod": t.__module__, "name": t.__qualname__, "id": id(t)}
    if isinstance(t, (str, typing.ForwardRef)):
        return {"unresolved": str(t)}
    return {"other": repr(t)[:80]}


# ------------------------------------------------------------------ dump
MODULES = {}


def kind_of(obj, modname):
    if isinstance(obj, types.ModuleType):
        return "module"
    if isinstance(obj, type):
        try:
            if issubclass(obj, betterproto.Message):
                return "message"
            if issubclass(obj, betterproto.Enum):
                return "enum"
            if issubclass(obj, betterproto.ServiceStub):
                return "stub"
            from betterproto.grpc.grpclib_server import ServiceBase
            if issubclass(obj, ServiceBase):
                return "base"
        except Exception:
            pass
        return "class"
    return "other"


def dump_message(cls):
    d = {"id": id(cls), "name": cls.__name__, "fields": [], "error": None}
    try:
        dfields = dataclasses.fields(cls)
    except Exception as e:
        d["error"] = "fields: " + short_exc(e)
        return d
    hints, hint_err = {}, None
    try:
        hints = cls._type_hints()
    except Exception as e:
        hint_err = short_exc(e)
    bp, bp_err = None, None
    try:
        bp = cls._betterproto
    except Exception as e:
        bp_err = short_exc(e)
    d["hint_error"], d["meta_error"] = hint_err, bp_err
    for f in dfields:
        meta = f.metadata.get("betterproto")
        fd = {"name": f.name}
        if meta is None:
            fd["no_meta"] = True
            d["fields"].append(fd)
            continue
        fd.update(number=meta.number, proto_type=meta.proto_type,
                  map_types=list(meta.map_types) if meta.map_types else None,
                  group=meta.group, wraps=meta.wraps, optional=bool(meta.optional))
        if f.name in hints:
            fd["hint"] = canon(hints[f.name])
        if bp is not None:
            try:
                g = bp.default_gen[f.name]
                if g is list:
                    fd["default_gen"] = "list"
                elif g is dict:
                    fd["default_gen"] = "dict"
                elif g is type(None):
                    fd["default_gen"] = "None"
                else:
                    fd["default_gen"] = getattr(g, "__qualname__", repr(g))
                fd["cls"] = canon(bp.cls_by_field[f.name]) if meta.proto_type != "map" else None
                if meta.proto_type == "map":
                    fd["cls_value"] = canon(bp.cls_by_field[f.name + ".value"])
            except Exception as e:
                fd["meta_field_error"] = short_exc(e)
        d["fields"].append(fd)
    # default instance + empty round trip
    try:
        inst = cls()
        defaults = {}
        for f in dfields:
            meta = f.metadata.get("betterproto")
            if meta is not None and meta.group:
                continue  # reading an unset oneof member raises by design
            v = getattr(inst, f.name)
            defaults[f.name] = canon(type(v)) if not isinstance(v, (list, dict)) else type(v).__name__
        d["defaults"] = defaults
        b = bytes(cls())
        d["empty_bytes"] = b.hex()
        cls().parse(b)
    except Exception as e:
        d["instance_error"] = short_exc(e)
    return d


def eval_ann(ann, mod):
    if isinstance(ann, str):
        ns = dict(vars(typing))
        ns.update(mod.__dict__)
        try:
            v = eval(ann, ns)
            if isinstance(v, str):
                v = eval(v, ns)
            return canon(v)
        except Exception as e:
            return {"unresolved": ann, "error": short_exc(e)}
    return canon(ann)


def dump_service_class(cls, mod, kind):
    d = {"id": id(cls), "name": cls.__name__, "methods": {}}
    for name, fn in vars(cls).items():
        if name.startswith("_") or not callable(fn):
            continue
        try:
            sig = inspect.signature(fn)
            params = [p for p in sig.parameters.values() if p.name != "self" and p.kind == p.POSITIONAL_OR_KEYWORD]
            ann = dict(getattr(fn, "__annotations__", {}))
            d["methods"][name] = {
                "param": params[0].name if params else None,
                "param_hint": eval_ann(ann.get(params[0].name), mod) if params else None,
                "return_hint": eval_ann(ann.get("return"), mod),
                "asyncgen": inspect.isasyncgenfunction(fn),
                "coroutine": inspect.iscoroutinefunction(fn),
            }
        except Exception as e:
            d["methods"][name] = {"error": short_exc(e)}
    if kind == "base":
        try:
            inst = cls()
            mp = inst.__mapping__()
            d["mapping"] = {
                route: {"cardinality": h.cardinality.name, "request": canon(h.request_type),
                        "reply": canon(h.reply_type), "func": getattr(h.func, "__name__", "?")}
                for route, h in mp.items()
            }
        except Exception as e:
            d["mapping_error"] = short_exc(e)
    return d


def dump_module(modname):
    d = {"module": modname, "ok": False, "error": None, "exposed": {}, "messages": {}, "enums": {},
         "stubs": {}, "bases": {}}
    try:
        mod = importlib.import_module(modname)
    except BaseException as e:
        d["error"] = short_exc(e)
        d["error_type"] = type(e).__name__
        d["traceback"] = traceback.format_exc()[-1500:]
        return d
    MODULES[modname] = mod
    d["ok"] = True
    d["all"] = list(getattr(mod, "__all__", ()))
    for name, obj in list(vars(mod).items()):
        if name.startswith("__") and name.endswith("__") and not isinstance(obj, type):
            continue
        k = kind_of(obj, modname)
        if k == "other":
            continue
        own = isinstance(obj, type) and obj.__module__ == modname
        d["exposed"][name] = {"kind": k, "id": id(obj), "own": own,
                              "mod": getattr(obj, "__module__", getattr(obj, "__name__", None)),
                              "name": getattr(obj, "__qualname__", getattr(obj, "__name__", None))}
        if not own:
            continue
        try:
            if k == "message":
                d["messages"][name] = dump_message(obj)
            elif k == "enum":
                d["enums"][name] = {"id": id(obj), "name": obj.__name__,
                                    "members": [[n, int(m)] for n, m in obj.__members__.items()]}
            elif k in ("stub", "base"):
                d[k + ("s" if k == "stub" else "s")][name] = dump_service_class(obj, mod, k)
        except Exception as e:
            d.setdefault("dump_errors", []).append("%s: %s" % (name, short_exc(e)))
    return d


# ------------------------------------------------------------------ value recipes
def find_class(modname, flatname, kinds=("message", "enum")):
    ck = (modname, flatname, kinds)
    if ck in _FOUND:
        return _FOUND[ck]
    _FOUND[ck] = c = _find_class(modname, flatname, kinds)
    return c


def _find_class(modname, flatname, kinds=("message", "enum")):
    mod = MODULES.get(modname) or importlib.import_module(modname)
    hits = [o for n, o in vars(mod).items()
            if isinstance(o, type) and o.__module__ == modname and norm(n) == norm(flatname)
            and kind_of(o, modname) in kinds]
    if len(hits) != 1:
        raise LookupError("%d classes match %s in %s" % (len(hits), flatname, modname))
    return hits[0]


def conv_scalar(v):
    if isinstance(v, dict):
        if "b" in v:
            return bytes.fromhex(v["b"])
        if "ts" in v:
            return datetime(1970, 1, 1, tzinfo=timezone.utc) + timedelta(microseconds=v["ts"])
        if "dur" in v:
            return timedelta(microseconds=v["dur"])
        if "f" in v:
            return float(v["f"])
    return v


def build(cls, recipe):
    bp = cls._betterproto
    kwargs = {}
    for num, vs in recipe.items():
        name = bp.field_name_by_number[int(num)]
        meta = bp.meta_by_field_name[name]
        kwargs[name] = conv(cls, name, meta, vs)
    return cls(**kwargs)


def conv(cls, name, meta, vs, elem=False):
    bp = cls._betterproto
    if isinstance(vs, dict) and "l" in vs:
        return [conv(cls, name, meta, x, True) for x in vs["l"]]
    if isinstance(vs, dict) and "d" in vs:
        vt = bp.cls_by_field[name + ".value"]
        out = {}
        for k, v in vs["d"]:
            out[conv_scalar(k)] = conv_leaf(vt, v)
        return out
    return conv_leaf(bp.cls_by_field[name], vs)


def conv_leaf(target, vs):
    if isinstance(vs, dict) and "m" in vs:
        return build(target, vs["m"])
    if isinstance(vs, dict) and "e" in vs:
        return target.try_value(vs["e"])
    return conv_scalar(vs)


def do_encode(results):
    out = []
    for item in spec.get("instances", []):
        r = {"key": item["key"]}
        try:
            cls = find_class(item["module"], item["flat"], ("message",))
            inst = build(cls, item["recipe"])
            r["built"] = True
            try:
                b = bytes(inst)
                if len(b) > 4096:
                    import hashlib
                    r["bytes"] = "len=%d sha1=%s" % (len(b), hashlib.sha1(b).hexdigest())
                else:
                    r["bytes"] = b.hex()
                try:
                    back = cls().parse(b)
                    r["roundtrip_equal"] = bool(back == inst)
                    r["rebytes_equal"] = bytes(back) == b
                except Exception as e:
                    r["parse_error"] = short_exc(e)
            except Exception as e:
                r["bytes_error"] = short_exc(e)
            try:
                r["json"] = inst.to_json()
                if len(r["json"]) > 8192:
                    import hashlib
                    r["json"] = "len=%d sha1=%s" % (len(r["json"]), hashlib.sha1(r["json"].encode()).hexdigest())
            except Exception as e:
                r["json_error"] = short_exc(e)
        except Exception as e:
            r["build_error"] = short_exc(e)
        out.append(r)
    results["instances"] = out


# ------------------------------------------------------------------ C13 reference checks
_HINTS = {}
_FOUND = {}


_EARLY = {}


def _early_touch(holder):
    """Every other holder class is first used while the names its forward references need are NOT yet bound in its module
    (what happens when a class is touched while circularly dependent packages are still being imported: the imports
    sit at the bottom of the module).  That first use may fail; once the names are bound the class must resolve as if
    nothing had happened.  Returns a short note for the evidence."""
    import types
    import zlib
    if holder in _EARLY:
        return None
    _EARLY[holder] = True
    if holder in _HINTS or zlib.crc32(("%s.%s" % (holder.__module__, holder.__qualname__)).encode()) % 2:
        return None
    if "_betterproto_meta" in vars(holder):
        return None                        # already used (metadata built): no longer a first use
    mod = sys.modules.get(holder.__module__)
    if mod is None:
        return None
    hidden = {}
    for k, v in list(vars(mod).items()):
        foreign_mod = isinstance(v, types.ModuleType) and (v.__name__.startswith(("genroot", "betterproto.lib")))
        foreign_cls = isinstance(v, type) and getattr(v, "__module__", "").startswith("genroot") and v.__module__ != mod.__name__
        if foreign_mod or foreign_cls:
            hidden[k] = v
            del mod.__dict__[k]
    note = "hid %d names" % len(hidden)
    try:
        try:
            holder()
            note += "; first use succeeded"
        except Exception as e:
            note += "; first use raised %s" % type(e).__name__
    finally:
        mod.__dict__.update(hidden)
    return note


def do_refs(results):
    """spec['refs']: list of {key, src_module, holder, number, site, dst_module, dst_flat, dst_kind}
    checks identity of the resolved class with the class the target module exposes."""
    out = []
    for r in spec.get("refs", []):
        res = {"key": r["key"], "ok": False}
        try:
            if r.get("wkt"):
                gp = importlib.import_module(r["dst_module"])
                target = getattr(gp, r["dst_flat"])
            else:
                target = find_class(r["dst_module"], r["dst_flat"])
            res["target"] = "%s.%s" % (target.__module__, target.__qualname__)
            holder = find_class(r["src_module"], r["holder"], ("message",))
            early = _early_touch(holder)
            if early:
                res["early_touch"] = early
            bp = holder._betterproto
            name = bp.field_name_by_number[r["number"]]
            meta = bp.meta_by_field_name[name]
            if holder not in _HINTS:
                _HINTS[holder] = holder._type_hints()
            hint = _HINTS[holder][name]
            leaves = [a for a in _leaves(hint) if a not in (int, str, type(None))]
            res["hint_leaf"] = [("%s.%s" % (x.__module__, x.__qualname__)) if isinstance(x, type) else repr(x) for x in leaves]
            problems = []
            if not (len(leaves) == 1 and leaves[0] is target):
                problems.append("type-hint")
            c = bp.cls_by_field[name + ".value"] if meta.proto_type == "map" else bp.cls_by_field[name]
            if c is not target:
                problems.append("cls_by_field=%s.%s" % (getattr(c, "__module__", "?"), getattr(c, "__qualname__", c)))
            # default value + round trip
            inst = holder()
            site = r["site"]
            if r["dst_kind"] == "message":
                val = target()
                # set some content if the class has an int field
                try:
                    for fn, m in target._betterproto.meta_by_field_name.items():
                        if m.proto_type == "int32":
                            setattr(val, fn, 7)
                except Exception:
                    pass
            else:
                val = target.try_value(1)
            if site == "field":
                dv = getattr(inst, name)
                if type(dv) is not target:
                    problems.append("default-is-%s" % type(dv).__name__)
                setattr(inst, name, val)
            elif site == "oneof":
                setattr(inst, name, val)
            elif site == "repeated":
                setattr(inst, name, [val, val])
            elif site == "map":
                setattr(inst, name, {"k": val})
            back = holder().parse(bytes(inst))
            got = getattr(back, name)
            if site == "repeated":
                got = got[0] if got else None
            elif site == "map":
                got = got.get("k")
            if type(got) is not target:
                problems.append("roundtrip-type-%s" % type(got).__name__)
            elif got != val:
                problems.append("roundtrip-value")
            res["problems"] = problems
            res["ok"] = not problems
        except Exception as e:
            res["error"] = short_exc(e)
            res["error_type"] = type(e).__name__
        out.append(res)
    results["refs"] = out
    # rpc references
    rout = []
    for r in spec.get("rpc_refs", []):
        res = {"key": r["key"], "ok": False}
        try:
            if r.get("wkt"):
                gp = importlib.import_module(r["dst_module"])
                target = getattr(gp, r["dst_flat"])
            else:
                target = find_class(r["dst_module"], r["dst_flat"], ("message",))
            base = find_class(r["src_module"], r["service"] + "Base", ("base",))
            stub = find_class(r["src_module"], r["service"] + "Stub", ("stub",))
            h = base().__mapping__()[r["route"]]
            got = h.request_type if r["site"] == "rpc_in" else h.reply_type
            problems = []
            if got is not target:
                problems.append("handler-type=%s.%s" % (getattr(got, "__module__", "?"), getattr(got, "__qualname__", got)))
            mod = MODULES[r["src_module"]]
            for kls in (stub, base):
                fns = [f for n, f in vars(kls).items() if not n.startswith("_") and norm(n) == norm(r["method"])]
                if len(fns) != 1:
                    problems.append("%s-method-count-%d" % (kls.__name__[-4:], len(fns)))
                    continue
                fn = fns[0]
                ann = fn.__annotations__
                if r["site"] == "rpc_in":
                    pn = [p for p in inspect.signature(fn).parameters if p != "self"][0]
                    a = ann.get(pn)
                else:
                    a = ann.get("return")
                ns = dict(vars(typing))
                ns.update(mod.__dict__)
                v = eval(a, ns) if isinstance(a, str) else a
                if isinstance(v, str):
                    v = eval(v, ns)
                lv = [x for x in _leaves(v) if isinstance(x, type)]
                if not lv or any(x is not target for x in lv):
                    problems.append("%s-annotation" % kls.__name__[-4:])
            res["problems"] = problems
            res["ok"] = not problems
        except Exception as e:
            res["error"] = short_exc(e)
            res["error_type"] = type(e).__name__
        rout.append(res)
    results["rpc_refs"] = rout


def _leaves(t):
    args = typing.get_args(t)
    if not args:
        return [t]
    out = []
    for a in args:
        out += _leaves(a)
    return out


# ------------------------------------------------------------------ C11 grpc
def do_grpc(results):
    import grpclib
    from grpclib.const import Status
    from grpclib.exceptions import GRPCError
    from grpclib.metadata import Deadline
    from grpclib.testing import ChannelFor
    import grpclib.const

    checks = []

    def add(service, method, check, ok, detail="", **kw):
        d = {"service": service, "method": method, "check": check, "ok": bool(ok), "detail": str(detail)[:400]}
        d.update(kw)
        checks.append(d)

    def rt_ok(m):
        try:
            return type(m)().parse(bytes(m)) == m
        except Exception:
            return False

    def resolve_type(t):
        if t["kind"] == "wkt":
            # the bundled classes the generated package itself uses for its fields under this configuration
            gp = importlib.import_module("betterproto.lib.pydantic.google.protobuf" if spec.get("flavour") == "pydantic"
                                         else "betterproto.lib.google.protobuf")
            return getattr(gp, t["name"])
        return find_class(t["module"], t["flat"], ("message",))

    async def run_service(sv):
        sname = sv["name"]
        try:
            Base = find_class(sv["module"], sname + "Base", ("base",))
            Stub = find_class(sv["module"], sname + "Stub", ("stub",))
        except Exception as e:
            add(sname, None, "locate-classes", False, short_exc(e))
            return
        pub = lambda kls: {n: f for n, f in vars(kls).items() if not n.startswith("_") and callable(f)}
        stub_m, base_m = pub(Stub), pub(Base)
        plans = []
        for me in sv["methods"]:
            sm = [n for n in stub_m if norm(n) == norm(me["name"])]
            bm = [n for n in base_m if norm(n) == norm(me["name"])]
            if len(sm) != 1 or len(bm) != 1:
                add(sname, me["name"], "method-present", False,
                    "stub methods %s base methods %s for rpc %s" % (sorted(stub_m), sorted(base_m), me["name"]))
                continue
            try:
                tin, tout = resolve_type(me["input"]), resolve_type(me["output"])
            except Exception as e:
                add(sname, me["name"], "resolve-types", False, short_exc(e))
                continue
            plans.append((me, sm[0], bm[0], tin, tout))
        if len(stub_m) != len(sv["methods"]) or len(base_m) != len(sv["methods"]):
            add(sname, None, "method-count", False, "stub %s base %s schema %s" % (
                sorted(stub_m), sorted(base_m), [m["name"] for m in sv["methods"]]))

        calls = []  # (pyname, [bytes])
        seen_streams = []
        behaviour = {}

        def make_handler(me, pyname, tin, tout):
            cs, ss = me["cs"], me["ss"]

            async def collect(arg):
                if cs:
                    return [r async for r in arg]
                return [arg]

            if ss:
                async def handler(self, arg):
                    if cs and behaviour[pyname].get("pingpong"):
                        # answer every request as soon as it arrives (an interactive conversation)
                        seen = []
                        calls.append((pyname, seen, []))
                        i = 0
                        async for r in arg:
                            seen.append(bytes(r))
                            rs = behaviour[pyname]["responses"]
                            yield rs[i % len(rs)]
                            i += 1
                        return
                    reqs = await collect(arg)
                    calls.append((pyname, [bytes(r) for r in reqs], [type(r) for r in reqs]))
                    b = behaviour[pyname]
                    for i, r in enumerate(b["responses"]):
                        if b.get("error_after") is not None and i == b["error_after"]:
                            raise GRPCError(getattr(Status, b["status"]), b["message"])
                        yield r
                    if b.get("error_after") is not None and b["error_after"] >= len(b["responses"]):
                        raise GRPCError(getattr(Status, b["status"]), b["message"])
            else:
                async def handler(self, arg):
                    reqs = await collect(arg)
                    calls.append((pyname, [bytes(r) for r in reqs], [type(r) for r in reqs]))
                    b = behaviour[pyname]
                    if b.get("error_after") is not None:
                        raise GRPCError(getattr(Status, b["status"]), b["message"])
                    return b["responses"][0]
            handler.__name__ = pyname
            return handler

        ns = {}
        for me, sname_py, bname_py, tin, tout in plans:
            ns[bname_py] = make_handler(me, bname_py, tin, tout)

        def mapping(self):
            m = Base.__mapping__(self)
            out = {}
            for route, h in m.items():
                def wrap(func, route=route):
                    async def w(stream):
                        seen_streams.append({"route": route, "metadata": dict(stream.metadata or {}),
                                             "deadline": stream.deadline.time_remaining() if stream.deadline else None})
                        return await func(stream)
                    return w
                out[route] = grpclib.const.Handler(wrap(h.func), h.cardinality, h.request_type, h.reply_type)
            return out

        ns["__mapping__"] = mapping
        Impl = type(sname + "Impl", (Base,), ns)

        async def invoke(stub, me, sname_py, reqs, use_async_iter, **kw):
            fn = getattr(stub, sname_py)
            if me["cs"]:
                if use_async_iter:
                    async def agen():
                        for r in reqs:
                            yield r
                    arg = agen()
                else:
                    arg = list(reqs)
            else:
                arg = reqs[0]
            if me["ss"]:
                got = []
                async for r in fn(arg, **kw):
                    got.append(r)
                return got
            return [await fn(arg, **kw)]

        async def guarded(coro):
            return await asyncio.wait_for(coro, 15)

        async def _consume(fn, arg):
            return [r async for r in fn(arg)]

        # ---- normal calls, error propagation, precedence
        try:
            async with ChannelFor([Impl()]) as channel:
                stub = Stub(channel)
                for me, sname_py, bname_py, tin, tout in plans:
                    for ci, call in enumerate(me["calls"]):
                        try:
                            reqs = [build(tin, r) for r in call["requests"]]
                            resps = [build(tout, r) for r in call["responses"]]
                        except Exception as e:
                            add(sname, me["name"], "build-values", False, short_exc(e))
                            continue
                        bad_payload = [m for m in reqs + resps if not rt_ok(m)]
                        if bad_payload:
                            # the codec itself cannot round-trip this value (C01/C02 territory): not a stub/server question
                            add(sname, me["name"], "payload-skipped", True, "payload of type %s does not survive bytes()/parse()" % type(bad_payload[0]).__name__,
                                cardinality=me["card"], skipped=True)
                            continue
                        behaviour[bname_py] = {"responses": resps}
                        calls.clear()
                        try:
                            got = await guarded(invoke(stub, me, sname_py, reqs, call.get("async_iter", False)))
                        except Exception as e:
                            add(sname, me["name"], "call", False, short_exc(e), cardinality=me["card"],
                                nreq=len(reqs), nresp=len(resps))
                            continue
                        ok_once = len(calls) == 1
                        ok_handler = ok_once and calls[0][0] == bname_py
                        ok_req = ok_once and calls[0][1] == [bytes(r) for r in reqs] and all(t is tin for t in calls[0][2])
                        ok_resp = [bytes(x) for x in got] == [bytes(x) for x in resps] and all(type(x) is tout for x in got) \
                            and all(a == b for a, b in zip(got, resps))
                        add(sname, me["name"], "invoked-once", ok_once, "calls=%s" % [c[0] for c in calls], cardinality=me["card"])
                        add(sname, me["name"], "right-handler", ok_handler, "calls=%s expected %s" % ([c[0] for c in calls], bname_py), cardinality=me["card"])
                        add(sname, me["name"], "request-equal", ok_req,
                            "sent %s got %s" % ([bytes(r).hex() for r in reqs], [x.hex() for x in calls[0][1]] if calls else None),
                            cardinality=me["card"], nreq=len(reqs))
                        add(sname, me["name"], "response-equal", ok_resp,
                            "handler %s caller %s" % ([bytes(r).hex() for r in resps], [bytes(r).hex() for r in got]),
                            cardinality=me["card"], nresp=len(resps))
                    # ---- GRPCError from the handler
                    try:
                        reqs = [build(tin, r) for r in me["calls"][0]["requests"]] or ([tin()] if not me["cs"] else [])
                        if not me["cs"] and not reqs:
                            reqs = [tin()]
                        resps = [build(tout, r) for r in me["calls"][0]["responses"]]
                        if not all(rt_ok(m) for m in reqs):
                            reqs = [tin()] if not me["cs"] else [tin(), tin()]
                        if not all(rt_ok(m) for m in resps):
                            resps = [tout() for _ in resps]
                        ea = me.get("error_after", 0)
                        if not me["ss"]:
                            ea = 0
                        ea = min(ea, len(resps))
                        behaviour[bname_py] = {"responses": resps, "error_after": ea,
                                               "status": me["error_status"], "message": "boom-%s" % me["error_status"]}
                        calls.clear()
                        got, err = [], None
                        try:
                            fn = getattr(stub, sname_py)
                            arg = list(reqs) if me["cs"] else reqs[0]
                            if me["ss"]:
                                async def consume():
                                    async for r in fn(arg):
                                        got.append(r)
                                await guarded(consume())
                            else:
                                got.append(await guarded(fn(arg)))
                        except GRPCError as e:
                            err = e
                        except Exception as e:
                            err = e
                        ok = isinstance(err, GRPCError) and err.status == getattr(Status, me["error_status"]) \
                            and err.message == "boom-%s" % me["error_status"]
                        ok_prefix = [bytes(x) for x in got] == [bytes(x) for x in resps[:ea]]
                        add(sname, me["name"], "grpc-error-propagates", ok, "got %r" % (err,), cardinality=me["card"])
                        if me["ss"]:
                            add(sname, me["name"], "grpc-error-after-prefix", ok_prefix,
                                "received %d of %d before error" % (len(got), ea), cardinality=me["card"])
                    except Exception as e:
                        add(sname, me["name"], "grpc-error-propagates", False, short_exc(e), cardinality=me["card"])

                # ---- a stream-stream call that the caller abandons (cancelled while waiting for a response) must let go
                # of its request source: a second call fed from the SAME source reaches its handler with every request
                for me, sname_py, bname_py, tin, tout in plans:
                    if not (me["cs"] and me["ss"]):
                        continue
                    try:
                        from betterproto.grpc.util.async_channel import AsyncChannel
                        pool_reqs = []
                        for call in me["calls"]:
                            for r in call["requests"]:
                                try:
                                    m = build(tin, r)
                                except Exception:
                                    continue
                                if rt_ok(m):
                                    pool_reqs.append(m)
                        while len(pool_reqs) < 4:
                            pool_reqs.append(tin())
                        first, rest = pool_reqs[0], pool_reqs[1:4]
                        behaviour[bname_py] = {"responses": [tout()]}
                        src = AsyncChannel()
                        fn = getattr(stub, sname_py)

                        async def abandoned():
                            async for _ in fn(src):
                                pass
                        await src.send(first)
                        try:
                            await asyncio.wait_for(abandoned(), 0.3)      # the handler waits for the end of the requests: never comes
                            add(sname, me["name"], "abandoned-call-setup", True, "first call ended by itself", cardinality=me["card"], skipped=True)
                            continue
                        except asyncio.TimeoutError:
                            pass
                        await asyncio.sleep(0.05)
                        calls.clear()

                        async def feed():
                            for r in rest:
                                await src.send(r)
                            src.close()
                        feeder = asyncio.ensure_future(feed())
                        got = await guarded(_consume(fn, src))
                        await feeder
                        mine = [c for c in calls if c[0] == bname_py]
                        ok = len(mine) == 1 and mine[0][1] == [bytes(r) for r in rest]
                        add(sname, me["name"], "second-call-after-abandoned-call-gets-every-request", ok,
                            "sent %s, handler calls received %s" % ([bytes(r).hex() for r in rest], [[x.hex() for x in c[1]] for c in mine]),
                            cardinality=me["card"])
                    except Exception as e:
                        add(sname, me["name"], "second-call-after-abandoned-call-gets-every-request", False, short_exc(e), cardinality=me["card"])

                # ---- an interactive stream-stream conversation: the caller produces request n+1 only after it has seen
                # response n, the handler answers each request as it arrives; every request must reach the handler when
                # it is sent, not when the next one (or the end of the stream) is known
                for me, sname_py, bname_py, tin, tout in plans:
                    if not (me["cs"] and me["ss"]):
                        continue
                    try:
                        from betterproto.grpc.util.async_channel import AsyncChannel
                        pool_reqs = []
                        for call in me["calls"]:
                            for r in call["requests"]:
                                try:
                                    m = build(tin, r)
                                except Exception:
                                    continue
                                if rt_ok(m):
                                    pool_reqs.append(m)
                        while len(pool_reqs) < 3:
                            pool_reqs.append(tin())
                        conv_reqs = pool_reqs[:3]
                        behaviour[bname_py] = {"responses": [tout()], "pingpong": True}
                        calls.clear()
                        src = AsyncChannel()
                        fn = getattr(stub, sname_py)
                        got = []

                        async def conversation():
                            k = 1
                            await src.send(conv_reqs[0])
                            async for resp in fn(src):
                                got.append(resp)
                                if k < len(conv_reqs):
                                    await src.send(conv_reqs[k])
                                    k += 1
                                else:
                                    src.close()
                        stalled = False
                        try:
                            await asyncio.wait_for(conversation(), 5)
                        except asyncio.TimeoutError:
                            stalled = True
                        mine = [c for c in calls if c[0] == bname_py]
                        ok = (not stalled) and len(got) == len(conv_reqs) and len(mine) == 1 and mine[0][1] == [bytes(r) for r in conv_reqs]
                        add(sname, me["name"], "interactive-conversation", ok,
                            "%s; %d responses for %d requests; handler saw %s" % ("STALLED (nothing arrived within 5 s)" if stalled else "finished",
                                                                               len(got), len(conv_reqs), [[x.hex()[:20] for x in c[1]] for c in mine]),
                            cardinality=me["card"])
                    except Exception as e:
                        add(sname, me["name"], "interactive-conversation", False, short_exc(e), cardinality=me["card"])
                    finally:
                        behaviour.pop(bname_py, None)

                # ---- precedence of per-call timeout / deadline / metadata
                if plans:
                    me, sname_py, bname_py, tin, tout = plans[sv.get("precedence_method", 0) % len(plans)]
                    reqs = [tin()] if not me["cs"] else [tin()]
                    behaviour[bname_py] = {"responses": [tout()]}

                    async def one(stub_kw, call_kw):
                        seen_streams.clear()
                        s = Stub(channel, **stub_kw)
                        await guarded(invoke(s, me, sname_py, reqs, False, **call_kw))
                        return seen_streams[-1] if seen_streams else None

                    def near(x, target):
                        return x is not None and target - 3.0 <= x <= target + 0.5

                    try:
                        s = await one({"timeout": 100.0}, {"timeout": 20.0})
                        add(sname, me["name"], "precedence-timeout-smaller", s and near(s["deadline"], 20.0), s, cardinality=me["card"])
                        s = await one({"timeout": 8.0}, {"timeout": 60.0})
                        add(sname, me["name"], "precedence-timeout-larger", s and near(s["deadline"], 60.0), s, cardinality=me["card"])
                        s = await one({"deadline": Deadline.from_timeout(100.0)}, {"deadline": Deadline.from_timeout(20.0)})
                        add(sname, me["name"], "precedence-deadline-smaller", s and near(s["deadline"], 20.0), s, cardinality=me["card"])
                        s = await one({"deadline": Deadline.from_timeout(8.0)}, {"deadline": Deadline.from_timeout(60.0)})
                        add(sname, me["name"], "precedence-deadline-larger", s and near(s["deadline"], 60.0), s, cardinality=me["card"])
                        s = await one({"metadata": {"x-level": "stub"}}, {"metadata": {"x-level": "call"}})
                        add(sname, me["name"], "precedence-metadata", s and s["metadata"].get("x-level") == "call", s, cardinality=me["card"])
                        s = await one({"metadata": {"x-level": "stub"}}, {"metadata": [("x-level", "call-list")]})
                        add(sname, me["name"], "precedence-metadata-list", s and s["metadata"].get("x-level") == "call-list", s, cardinality=me["card"])
                        s = await one({"metadata": {"x-level": "stub"}}, {"metadata": {}})
                        add(sname, me["name"], "precedence-metadata-empty", s is not None and "x-level" not in s["metadata"], s, cardinality=me["card"])
                        s = await one({"timeout": 30.0, "metadata": {"x-level": "stub"}}, {})
                        add(sname, me["name"], "defaults-apply", s and near(s["deadline"], 30.0) and s["metadata"].get("x-level") == "stub", s, cardinality=me["card"])
                        s = await one({}, {})
                        add(sname, me["name"], "no-deadline-by-default", s is not None and s["deadline"] is None, s, cardinality=me["card"])

                        # ---- several calls on ONE stub: a per-call option applies to that call only
                        async def seq(stub_kw, *calls):
                            st_ = Stub(channel, **stub_kw)
                            out = []
                            for call_kw in calls:
                                seen_streams.clear()
                                await guarded(invoke(st_, me, sname_py, reqs, False, **call_kw))
                                out.append(seen_streams[-1] if seen_streams else None)
                            return out
                        r = await seq({"metadata": {"x-level": "stub"}, "timeout": 50.0}, {"metadata": {"x-level": "call"}, "timeout": 5.0}, {}, {"metadata": {}}, {})
                        ok = (all(x is not None for x in r) and r[0]["metadata"].get("x-level") == "call" and near(r[0]["deadline"], 5.0)
                              and r[1]["metadata"].get("x-level") == "stub" and near(r[1]["deadline"], 50.0)
                              and "x-level" not in r[2]["metadata"] and r[3]["metadata"].get("x-level") == "stub" and near(r[3]["deadline"], 50.0))
                        add(sname, me["name"], "per-call-options-do-not-stick-to-the-stub", ok, r, cardinality=me["card"])
                        r = await seq({}, {"timeout": 5.0, "metadata": {"x-level": "call"}}, {})
                        ok = (all(x is not None for x in r) and near(r[0]["deadline"], 5.0) and r[1]["deadline"] is None and "x-level" not in r[1]["metadata"])
                        add(sname, me["name"], "per-call-options-do-not-stick-to-a-bare-stub", ok, r, cardinality=me["card"])
                    except Exception as e:
                        add(sname, me["name"], "precedence", False, short_exc(e), cardinality=me["card"])
        except Exception as e:
            add(sname, None, "channel", False, short_exc(e) + traceback.format_exc()[-600:])

        # ---- UNIMPLEMENTED for the bare base class
        try:
            async with ChannelFor([Base()]) as channel:
                stub = Stub(channel)
                for me, sname_py, bname_py, tin, tout in plans:
                    err = None
                    try:
                        await guarded(invoke(stub, me, sname_py, [tin()], False))
                    except Exception as e:
                        err = e
                    ok = isinstance(err, GRPCError) and err.status == Status.UNIMPLEMENTED
                    add(sname, me["name"], "unimplemented", ok, "got %r" % (err,), cardinality=me["card"])
        except Exception as e:
            add(sname, None, "channel-unimplemented", False, short_exc(e))

    async def main():
        for sv in spec.get("services", []):
            await run_service(sv)

    asyncio.run(main())
    results["grpc_checks"] = checks


# ------------------------------------------------------------------ bundled classes vs descriptor.proto / plugin.proto
PB_TYPE = {1: "double", 2: "float", 3: "int64", 4: "uint64", 5: "int32", 6: "fixed64", 7: "fixed32",
           8: "bool", 9: "string", 10: "group", 11: "message", 12: "bytes", 13: "uint32", 14: "enum",
           15: "sfixed32", 16: "sfixed64", 17: "sint32", 18: "sint64"}


def do_bundled(results):
    import keyword
    from google.protobuf import (any_pb2, api_pb2, descriptor_pb2, duration_pb2, empty_pb2, field_mask_pb2,
                                 source_context_pb2, struct_pb2, timestamp_pb2, type_pb2, wrappers_pb2)
    from google.protobuf.compiler import plugin_pb2

    groups = [
        ("google.protobuf", [descriptor_pb2, any_pb2, api_pb2, duration_pb2, empty_pb2, field_mask_pb2,
                             source_context_pb2, struct_pb2, timestamp_pb2, type_pb2, wrappers_pb2]),
        ("google.protobuf.compiler", [plugin_pb2]),
    ]
    mismatches, compared_fields, compared_classes, compared_enum_members = [], 0, 0, 0
    unmatched_classes, ref_only_fields, bundled_only_fields = [], [], []
    for flavour in ("std", "pydantic"):
        for pkg, pb2s in groups:
            modname = "betterproto.lib.%s.%s" % (flavour, pkg)
            try:
                mod = importlib.import_module(modname)
            except Exception as e:
                results.setdefault("bundled_import_errors", {})[modname] = short_exc(e)
                continue
            msgs, enums = {}, {}

            def walk(desc, prefix):
                flat = prefix + desc.name
                msgs[norm(flat)] = desc
                for e in desc.enum_types:
                    enums[norm(flat + e.name)] = e
                for n in desc.nested_types:
                    if not n.GetOptions().map_entry:
                        walk(n, flat)

            for pb2 in pb2s:
                fd = pb2.DESCRIPTOR
                for d in fd.message_types_by_name.values():
                    walk(d, "")
                for e in fd.enum_types_by_name.values():
                    enums[norm(e.name)] = e
            for name, cls in vars(mod).items():
                if not isinstance(cls, type) or cls.__module__ != modname:
                    continue
                if issubclass(cls, betterproto.Message):
                    desc = msgs.get(norm(name))
                    if desc is None:
                        unmatched_classes.append(modname + "." + name)
                        continue
                    compared_classes += 1
                    try:
                        bp = cls._betterproto
                    except Exception as e:
                        mismatches.append({"class": modname + "." + name, "field": None, "attr": "metadata",
                                           "bundled": short_exc(e), "reference": "usable class"})
                        continue
                    ref_fields = {f.name: f for f in desc.fields}
                    seen = set()
                    for fname, meta in bp.meta_by_field_name.items():
                        rf = ref_fields.get(fname)
                        if rf is None and fname.endswith("_") and keyword.iskeyword(fname[:-1]):
                            rf = ref_fields.get(fname[:-1])
                        if rf is None:
                            bundled_only_fields.append("%s.%s.%s" % (modname, name, fname))
                            continue
                        seen.add(rf.name)
                        compared_fields += 1
                        is_map = rf.message_type is not None and rf.message_type.GetOptions().map_entry
                        ref_type = "map" if is_map else PB_TYPE[rf.type]
                        if hasattr(rf, "is_repeated"):
                            rep = rf.is_repeated
                            rep = rep() if callable(rep) else rep
                        else:
                            rep = rf.label == 3
                        ref_rep = bool(rep) and not is_map
                        where = {"class": modname + "." + name, "field": fname}
                        if meta.number != rf.number:
                            mismatches.append(dict(where, attr="number", bundled=meta.number, reference=rf.number))
                        if meta.proto_type != ref_type:
                            mismatches.append(dict(where, attr="type", bundled=meta.proto_type, reference=ref_type))
                        if is_map and meta.map_types:
                            kt = PB_TYPE[rf.message_type.fields_by_name["key"].type]
                            vt = PB_TYPE[rf.message_type.fields_by_name["value"].type]
                            if list(meta.map_types) != [kt, vt]:
                                mismatches.append(dict(where, attr="map_types", bundled=list(meta.map_types), reference=[kt, vt]))
                        g = bp.default_gen[fname]
                        if ref_rep != (g is list):
                            mismatches.append(dict(where, attr="repeated", bundled=(g is list), reference=ref_rep))
                        # referenced message / enum class
                        if not is_map and rf.type in (11, 14):
                            target = rf.message_type if rf.type == 11 else rf.enum_type
                            chain, t = [], target
                            while t is not None:
                                chain.append(t.name)
                                t = t.containing_type
                            flat = "".join(reversed(chain))
                            c = bp.cls_by_field[fname]
                            cname = getattr(c, "__name__", str(c))
                            unwrapped = c in (datetime, timedelta) or meta.wraps is not None
                            if not unwrapped and norm(cname) != norm(flat):
                                mismatches.append(dict(where, attr="target", bundled=cname, reference=flat))
                    for rn in ref_fields:
                        if rn not in seen:
                            ref_only_fields.append("%s.%s.%s" % (modname, name, rn))
                elif issubclass(cls, betterproto.Enum):
                    ed = enums.get(norm(name))
                    if ed is None:
                        unmatched_classes.append(modname + "." + name)
                        continue
                    compared_classes += 1
                    ref = {v.name: v.number for v in ed.values}
                    for mname, member in cls.__members__.items():
                        cands = [rn for rn in ref if rn == mname or rn == mname.rstrip("_")
                                 or (mname.strip("_") and rn.endswith("_" + mname.strip("_")))
                                 or (not mname.strip("_") and ref[rn] == int(member))]
                        if not cands:
                            bundled_only_fields.append("%s.%s.%s" % (modname, name, mname))
                            continue
                        compared_enum_members += 1
                        if int(member) not in [ref[c] for c in cands]:
                            mismatches.append({"class": modname + "." + name, "field": mname, "attr": "enum-number",
                                               "bundled": int(member), "reference": {c: ref[c] for c in cands}})
    results["bundled"] = {
        "mismatches": mismatches, "compared_fields": compared_fields, "compared_classes": compared_classes,
        "compared_enum_members": compared_enum_members, "unmatched_classes": unmatched_classes,
        "reference_only_fields": ref_only_fields, "bundled_only_fields": bundled_only_fields,
    }


# ------------------------------------------------------------------ main
def main():
    results = {"modules": {}}
    if mode == "refs":
        # before anything else uses the classes (see _early_touch)
        notes = {}
        for r in spec.get("refs", []):
            try:
                n = _early_touch(_find_class(r["src_module"], r["holder"], ("message",)))
            except Exception as e:
                n = "setup: " + short_exc(e)
            if n:
                notes[n.split("; ")[-1]] = notes.get(n.split("; ")[-1], 0) + 1
        results["early_touches"] = notes
    for modname in spec.get("modules", []):
        results["modules"][modname] = dump_module(modname)
    for extra in spec.get("extra_modules", []):
        try:
            MODULES[extra] = importlib.import_module(extra)
        except Exception as e:
            results.setdefault("extra_errors", {})[extra] = short_exc(e)
    try:
        if mode == "encode":
            do_encode(results)
        elif mode == "refs":
            do_refs(results)
        elif mode == "grpc":
            do_grpc(results)
        elif mode == "bundled":
            do_bundled(results)
    except Exception as e:
        results["mode_error"] = short_exc(e) + "\n" + traceback.format_exc()[-1500:]
    _real_stdout.write(json.dumps(results, default=repr))
    _real_stdout.flush()


main()
