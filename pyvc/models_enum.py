"""Model of betterproto.enum: an enum class is its two lookup tables; members are immutable (name, value) objects.

value_map : number -> member id (-1 = absent)     member_map : name -> member id (-1 = absent)
MEM_NAME(id) : None | str        MEM_VALUE(id) : int (the integer the member IS: Enum subclasses int)
Class construction through type(...) / type.__new__ / int.__new__ is assumed (A-OBJ-CLASS); the member loop of
EnumType.__new__ and every lookup / guard method are verified against these tables."""
import ast
import z3

from .sym import SV, NONE, IntS, BoolS, StrS, PyObj, sv_int, sv_bool, sv_str, sv_tuple, to_obj, concrete_str
from .exec import Unsupported, Raised, fresh

VM_S = z3.ArraySort(IntS, IntS)
MM_S = z3.ArraySort(StrS, IntS)
MEM_NAME = z3.Function("MEM_NAME", IntS, PyObj)
MEM_VALUE = z3.Function("MEM_VALUE", IntS, IntS)
FIRSTOCC = z3.Function("FIRSTOCC", IntS, IntS)     # index of the first declaration with that number, -1 if none
NAMES_S = z3.SeqSort(StrS)
VALS_S = z3.SeqSort(IntS)


class EnumPlugin:
    SPEC_NAMES = {"VMAP", "MMAP", "MNAME", "MVALUE", "MID", "DECL_N", "DECL_NAME", "DECL_VALUE", "FIRSTIDX", "NEXT_ID", "VM_OF", "MM_OF", "FO", "FO_WF"}

    def __init__(self):
        self._first = None

    def first_fn(self):
        if self._first is None:
            f = z3.RecFunction("FIRSTIDX", VALS_S, IntS, IntS, IntS)
            vals = z3.Const("vals!f", VALS_S)
            v, k = z3.Int("v!f"), z3.Int("k!f")
            p = f(vals, v, k - 1)
            z3.RecAddDefinition(f, [vals, v, k], z3.If(k <= 0, z3.IntVal(-1),
                                z3.If(p != -1, p, z3.If(vals[k - 1] == v, k - 1, z3.IntVal(-1)))))
            self._first = f
        return self._first

    def make_model_param(self, ex, st, p, model):
        if model == "enumcls":
            st.heap[("cls", "vm")] = SV("arr", z3.Const("cls.value_map", VM_S))
            st.heap[("cls", "mm")] = SV("arr", z3.Const("cls.member_map", MM_S))
            st.heap[("$E", "next")] = sv_int(z3.Int("enum.next_id"))
            ex.inputs["cls.value_map"] = st.heap[("cls", "vm")].t
            ex.inputs["cls.member_map"] = st.heap[("cls", "mm")].t
            return SV("ref", "cls", "enumcls")
        if model == "member":
            v = z3.Int(f"{p}.id")
            ex.inputs[f"{p}.id"] = v
            return SV("member", v)
        if model == "memberdecls":
            names, vals = z3.Const(f"{p}.names", NAMES_S), z3.Const(f"{p}.values", VALS_S)
            st.assume(z3.Length(names) == z3.Length(vals))
            ex.inputs[f"{p}.names"], ex.inputs[f"{p}.values"] = names, vals
            return SV("decls", (names, vals))
        if model == "vmdict":
            a = z3.Const(f"{p}", VM_S)
            ex.inputs[p] = a
            return SV("vmdict", a)
        if model == "mmdict":
            a = z3.Const(f"{p}", MM_S)
            ex.inputs[p] = a
            return SV("mmdict", a)
        if model == "opaque":
            return SV("const", f"<{p}>")
        return None

    def spec_has(self, name):
        return name in self.SPEC_NAMES

    def spec_call(self, ex, name, pos, st):
        if name == "VMAP":
            return sv_int(st.heap[("cls", "vm")].t[ex.as_int(pos[0], st)])
        if name == "MMAP":
            return sv_int(st.heap[("cls", "mm")].t[pos[0].t])
        if name == "VM_OF":
            return sv_int(pos[0].t[ex.as_int(pos[1], st)])
        if name == "MM_OF":
            return sv_int(pos[0].t[pos[1].t])
        if name == "MNAME":
            return SV("obj", MEM_NAME(ex.as_int(pos[0], st)))
        if name == "MVALUE":
            return sv_int(MEM_VALUE(ex.as_int(pos[0], st)))
        if name == "MID":
            v = pos[0]
            if v.kind not in ("member", "optmember"):
                raise Unsupported("MID of a non-member")
            return sv_int(v.t)
        if name == "DECL_N":
            return sv_int(z3.Length(pos[0].t[0]))
        if name == "DECL_NAME":
            return sv_str(pos[0].t[0][ex.as_int(pos[1], st)])
        if name == "DECL_VALUE":
            return sv_int(pos[0].t[1][ex.as_int(pos[1], st)])
        if name == "FIRSTIDX":
            return sv_int(self.first_fn()(pos[0].t[1], ex.as_int(pos[1], st), ex.as_int(pos[2], st)))
        if name == "FO":
            return sv_int(FIRSTOCC(ex.as_int(pos[0], st)))
        if name == "FO_WF":
            # FIRSTOCC is the (always existing) first-occurrence function of the declared numbers
            names, vals = pos[0].t
            j, h, v = z3.Int("j!fo"), z3.Int("h!fo"), z3.Int("v!fo")
            n = z3.Length(vals)
            a1 = z3.ForAll([j], z3.Implies(z3.And(0 <= j, j < n), z3.And(0 <= FIRSTOCC(vals[j]), FIRSTOCC(vals[j]) <= j,
                                                                      vals[FIRSTOCC(vals[j])] == vals[j])))
            a2 = z3.ForAll([v, h], z3.Implies(z3.And(0 <= h, h < FIRSTOCC(v)), vals[h] != v))
            a3 = z3.ForAll([v], z3.Or(FIRSTOCC(v) == -1, z3.And(0 <= FIRSTOCC(v), FIRSTOCC(v) < n, vals[FIRSTOCC(v)] == v)))
            return sv_bool(z3.And(a1, a2, a3))
        if name == "NEXT_ID":
            return st.heap[("$E", "next")]
        raise Unsupported(name)

    # ------------------------------------------------------------------------------------------
    def truth_hook(self, ex, v):
        if v.kind == "optmember":
            # None is falsy; a member is an int: falsy iff its number is 0
            return z3.And(v.t != -1, MEM_VALUE(v.t) != 0)
        if v.kind == "member":
            return MEM_VALUE(v.t) != 0
        return None

    def compare_hook(self, ex, op, a, b, st):
        if isinstance(op, (ast.Is, ast.IsNot, ast.Eq, ast.NotEq)):
            r = None
            for x, y in ((a, b), (b, a)):
                if x.kind in ("optmember", "member") and y.kind == "none":
                    r = (x.t == -1) if x.kind == "optmember" else z3.BoolVal(False)
            if a.kind in ("member", "optmember") and b.kind in ("member", "optmember") and isinstance(op, (ast.Is, ast.IsNot)):
                r = a.t == b.t
            if r is not None:
                return z3.Not(r) if isinstance(op, (ast.IsNot, ast.NotEq)) else r
        return None

    def getattr_hook(self, ex, st, v, attr):
        if v.extra == "enumcls":
            if attr == "_value_map_":
                return [(st, SV("vmdict", st.heap[("cls", "vm")].t))]
            if attr == "_member_map_":
                return [(st, SV("mmdict", st.heap[("cls", "mm")].t))]
            if attr == "__name__":
                return [(st, SV("const", "<enum name>"))]
            return [(st, SV("func", ("method", v, attr)))]
        return None

    def attr_hook(self, ex, st, v, attr):
        if v.kind in ("vmdict", "mmdict", "decls"):
            return [(st, SV("func", ("method", v, attr)))]
        if v.kind == "member":
            if attr == "name":
                return [(st, SV("obj", MEM_NAME(v.t)))]
            if attr == "value":
                return [(st, sv_int(MEM_VALUE(v.t)))]
            if attr == "__class__":
                return [(st, SV("const", "<enum class>"))]
            return [(st, SV("func", ("method", v, attr)))]
        if v.kind == "const" and isinstance(v.t, str) and v.t.startswith("<"):
            return [(st, SV("const", v.t + "." + attr))]
        return None

    def new_member(self, ex, st, name_obj, value):
        nid = st.heap[("$E", "next")].t
        st2 = st.clone()
        st2.heap[("$E", "next")] = sv_int(nid + 1)
        st2.assume(MEM_NAME(nid) == name_obj)
        st2.assume(MEM_VALUE(nid) == value)
        ex.assumption("A-OBJ-CLASS")
        return st2, SV("member", nid)

    def call_method(self, ex, recv, name, pos, kw, st, node):
        if recv.kind == "decls" and name == "items":
            return [(st, SV("iter_decls", recv.t))]
        if recv.kind == "vmdict" and name == "get":
            return [(st, SV("optmember", recv.t[ex.as_int(pos[0], st)]))]
        if recv.kind == "mmdict" and name == "values":
            return [(st, SV("iter_members", recv.t))]
        if recv.kind in ("ref",) and recv.extra == "enumcls" and name == "__new__":
            # cls.__new__(cls, name=..., value=...): Enum.__new__ builds the member object (int.__new__ + two
            # attribute stores): a fresh member with that name and number
            nm = kw.get("name")
            val = kw.get("value")
            if nm is None or val is None:
                raise Unsupported("cls.__new__ call shape")
            return [self.new_member(ex, st, to_obj(nm), ex.as_int(val, st))]
        return None

    def iter_hook(self, ex, st, itv):
        if itv.kind == "iter_decls":
            names, vals = itv.t
            return z3.Length(names), (lambda k: sv_tuple([sv_str(names[k]), sv_int(vals[k])]))
        return None

    def index_hook(self, ex, seq, idx, st):
        if seq.kind == "vmdict":
            i = ex.as_int(idx, st)
            return self._lookup(ex, st, seq.t[i])
        if seq.kind == "mmdict":
            k = ex.coerce(idx, "str", st, "member name")
            return self._lookup(ex, st, seq.t[k.t])
        return None

    def _lookup(self, ex, st, mid):
        out = []
        s_r = st.clone()
        s_r.assume(mid == -1)
        if ex.feasible(s_r):
            out.append((s_r, Raised(SV("exc", "KeyError"))))
        s_n = st.clone()
        s_n.assume(mid != -1)
        if ex.feasible(s_n):
            out.append((s_n, SV("member", mid)))
        return out

    def set_item(self, ex, st, recv, key, v):
        if recv.kind in ("vmdict", "mmdict") and v.kind in ("member", "optmember"):
            k = ex.as_int(key, st) if recv.kind == "vmdict" else ex.coerce(key, "str", st, "name").t
            new = SV(recv.kind, z3.Store(recv.t, k, v.t))
            for k_, v_ in list(st.env.items()):
                if v_ is recv:
                    st.env[k_] = new
                    return True
            raise Unsupported("item assignment on an untracked dict")
        return None

    def havoc_hook(self, ex, st, refs):
        # members may be created inside a loop body: the id counter is part of the loop-modified state
        if ("$E", "next") in st.heap:
            st.heap[("$E", "next")] = sv_int(fresh("enum.next_id", IntS))
        return None

    def call_builtin(self, ex, name, pos, kw, st, node):
        if name == "type.__setattr__":
            ex.assumption("A-OBJ-CLASS")
            return [(st, NONE)]
        if name == "isinstance" and pos and pos[0].kind == "member":
            return [(st, sv_bool(True))]
        return None


ENUM_ASSUMPTIONS = {
    "A-OBJ-CLASS": "type(name, bases, ns) / type.__new__ / int.__new__(cls, v) / type.__setattr__ create what they say: a member object is "
                   "an int equal to its value with attributes name and value; class attributes do not affect the lookup tables",
}
