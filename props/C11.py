"""C11 — generated gRPC stub and server base agree."""
AREAS = ["names", "grpc"]
LEVEL = "other"
EXPLANATION = (
    "Proved on the real helpers the generated stub methods delegate to (stream = ghost trace + ordered list of sent "
    "messages): __resolve_request_kwargs gives the call-level timeout / deadline / metadata unless it is None; "
    "_unary_unary / _unary_stream / _stream_unary / _stream_stream open exactly one stream on `route` with the "
    "cardinality of their name and the given request / response types, send the request with end=True (unary) or "
    "send_request, every item in order, end() (streaming), and return / yield the responses unchanged and in order; "
    "_send_messages sends every message in order and then ends the stream; the server-side stream adapter invokes the "
    "handler once with the request and sends each yielded response in order; pythonize_method_name is a valid identifier. "
    "That the rendered template wires each RPC to the helper of the same cardinality and registers the same route in "
    "Base.__mapping__, and that grpclib delivers intact (A-GRPCLIB), is decided by the bounded end-to-end stand-in "
    "(real plugin + grpclib ChannelFor).")
ASSUMED = ["A-GRPCLIB", "template wiring of stub / base (Jinja): bounded end-to-end stand-in only"]
from pyvc.check import external_bounded
BOUNDED = [external_bounded("plugin-end-to-end:C11", "standin_plugin.run", ["C11", "--n", "6"], ["C11", "--n", "40"],
                            "real plugin on generated services, in-process grpclib ChannelFor, all four cardinalities")]
