"""Contracts for AsyncChannel (C12): safety under every schedule, by invariance over await-delimited segments."""
from pyvc.contracts import FN, LOOP, LEMMA
from pyvc.models_chan import ChanPlugin

DEPENDS = []
SPEC_MODULES = ("wire",)
Q = "betterproto.grpc.util.async_channel.AsyncChannel."

INV = [
    ("I1-counters", "WR() >= 0 and PEND() >= 0 and FLUSHREM() >= 0 and UNF() >= 0"),
    ("I2-flushed-implies-closed", "implies(FLUSHED(), CLOSED())"),
    ("I4-unfinished-covers-taken-items", "UNF() == QLEN() + PEND()"),
    ("I5-no-stranded-receiver", "implies(CLOSED() and FLUSHED(), QLEN() + FLUSHREM() >= WR())"),
    ("I6-only-the-flush-owes-sentinels", "implies(not FLUSHED(), FLUSHREM() == 0)"),
    ("I7-close-schedules-the-flush", "implies(CLOSED(), FLUSH_SCHEDULED() or FLUSHED())"),
]
BALANCED = [("balanced-waiting-count", "MY_WR() == 0"), ("every-taken-item-marked-done", "MY_PEND() == 0")]
PLUGINS = [ChanPlugin(INV)]
CH = {"self": "model:chan"}
LEMMAS = []

RECV_RESULT = ("C12-returns-the-item-it-took",
               "(is_none(result) and same(LAST_POPPED(), FLUSHOBJ())) or (same(result, LAST_POPPED()) and not same(result, FLUSHOBJ()))")

CONTRACTS = [
    FN(Q + "done", types=CH, inline=True),
    FN(Q + "closed", types=CH, inline=True),
    FN(Q + "receive", types=CH, returns="obj", modifies=["self"],
       requires=INV,
       ensures=[RECV_RESULT],
       raises=[("ChannelDone", "iff", "CLOSED() and QLEN() <= WR()"), ("CancelledError", "may", "")],
       on_raise=[("CancelledError", "MY_PEND() == 0"), ("ChannelDone", "MY_PEND() == 0")],
       always=INV + BALANCED, top=["C12-returns-the-item-it-took"], props=["C12"]),
    FN(Q + "__anext__", types=CH, returns="obj", modifies=["self"],
       requires=INV,
       ensures=[("C12-returns-the-item-it-took", "same(result, LAST_POPPED()) and not same(result, FLUSHOBJ())")],
       raises=[("StopAsyncIteration", "may", ""), ("CancelledError", "may", "")],
       on_raise=[("CancelledError", "MY_PEND() == 0")],
       always=INV + BALANCED, top=["C12-returns-the-item-it-took"], props=["C12"]),
    FN(Q + "send", types={**CH, "item": "obj"}, returns="any", modifies=["self"],
       requires=INV + [("item-is-not-the-private-sentinel", "not same(item, FLUSHOBJ())")],
       ensures=[("C12-item-enqueued-last", "QLEN() >= 1 and same(QITEMS()[QLEN() - 1], item)")],
       raises=[("ChannelClosed", "iff", "CLOSED()"), ("CancelledError", "may", "")],
       always=INV + BALANCED, top=["C12-item-enqueued-last"], props=["C12"]),
    FN(Q + "send_from", types={**CH, "source": "model:source", "close": "bool"}, returns="any", modifies=["self"],
       requires=INV + [("items-are-not-the-private-sentinel", "forall(0, SRC_N(source), lambda i: not same(SRC_ITEM(source, i), FLUSHOBJ()))")],
       ensures=[("C12-close-after-source", "implies(close, CLOSED() and (FLUSH_SCHEDULED() or FLUSHED()))")],
       raises=[("ChannelClosed", "iff", "CLOSED()"), ("CancelledError", "may", "")],
       loops={0: LOOP(index="si", inv=INV + BALANCED), 1: LOOP(index="si", inv=INV + BALANCED)},
       inst_terms=["si"],
       always=INV + BALANCED, props=["C12"]),
    # (closing a channel that is already closed need not schedule a second flush: C0 = closed on entry)
    FN(Q + "close", types=CH, returns="none", modifies=["self"], ghost={"C0": "CLOSED()"},
       requires=INV,
       ensures=[("C12-closed", "CLOSED() and (FLUSH_SCHEDULED() or FLUSHED() or C0)")],
       always=INV + BALANCED, top=["C12-closed"], props=["C12"]),
    FN(Q + "_flush_queue", types=CH, returns="none", modifies=["self"],
       requires=INV + [("runs-after-close", "CLOSED()")],
       ensures=[("C12-flushed", "FLUSHED()")],
       raises=[("CancelledError", "may", "")],
       loops={0: LOOP(index="fk", inv=INV + BALANCED + [("sentinels-still-owed", "FLUSHED() and FLUSHREM() == deadlocked_receivers - fk")])},
       always=INV + BALANCED, top=["C12-flushed"], props=["C12"]),
]
