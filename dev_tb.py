import sys; sys.path.insert(0,'/verif')
import traceback, importlib
from pyvc.exec import Engine, FnExec, Unsupported
from pyvc.speclib import SpecLib
area, fn = sys.argv[1], sys.argv[2]
mod = importlib.import_module(f"contracts.{area}")
spec = SpecLib(getattr(mod,"SPEC_MODULES",("wire",))); spec.plugins += getattr(mod,"PLUGINS",[])
eng = Engine(mod.CONTRACTS + getattr(mod,"EXTRA_CONTRACTS",[]), spec); eng.lemmas={L.name:L for L in mod.LEMMAS}
ex=FnExec(eng,fn)
try:
    st=ex.make_entry_state(); ex.entry=st.clone()
    for g, e in ex.c.ghost.items(): st.ghost[g] = ex.ev_spec(e, st)
    ex.entry = st.clone()
    for name, r in ex.c.requires: st.assume(ex.truth(ex.ev_spec(r, st)))
    for st1,sig in ex.exec_block(ex.node.body, st):
        ex.at_exit(st1,sig)
    print("ok", len(ex.obls))
except Exception:
    traceback.print_exc()
