"""C19 — name mapping is total and safe, and JSON keys map back to their fields."""
AREAS = ["names"]
LEVEL = "other"
EXPLANATION = (
    "Proved with identifiers / keywords as regular languages: sanitize_name returns a valid non-keyword identifier for "
    "every string over [A-Za-z0-9_] and is the identity on such identifiers (idempotence); safe_snake_case, "
    "pythonize_field_name / _method_name / _class_name inherit it from the ASSUMED range contracts of snake_case / "
    "pascal_case (re.sub with a Python callback is outside the proved subset). Bounded and exhaustive up to the stated "
    "length: those range contracts, idempotence of the composed mappings, and the end-to-end JSON key round trip "
    "(to_dict key in either casing and the proto name -> from_dict finds the field).")
ASSUMED = ["ASSUMED range contracts of snake_case / pascal_case (exhaustively checked for all identifiers of length <= 6 over {a,b,A,B,1,_} only)",
           "A-IDENT"]
from pyvc.check import external_bounded
from pyvc.check import external_bounded
BOUNDED = [external_bounded("names-exhaustive", "standin_misc.names", ["--maxlen", "5"], ["--maxlen", "6"],
                            "all identifiers up to length 5 (quick) / 6 (thorough) over {a,b,A,B,1,_} + keywords/builtins + corpus, exhaustive"),
           external_bounded("deep-schema:C19", "standin.deep", ["C19", "--n", "150"], ["C19", "--n", "800"],
                            "twin classes whose fields share a camelCase key (address_line_1 / address_line1), both first-use orders")]
