"""Contracts for the gRPC call helpers (C11): what the generated stub methods delegate to.
The stream is a ghost trace (1 send_request, 2 send_message, 3 end, 4 send_message(end=True), 5 recv_message,
6 sending task cancelled) plus the ordered list of messages sent."""
from pyvc.contracts import FN, LOOP, LEMMA
from pyvc.models_grpc import GrpcPlugin

DEPENDS = []
SPEC_MODULES = ("wire", "grpcspec")
PLUGINS = [GrpcPlugin()]
LEMMAS = []
S = "betterproto.grpc.grpclib_client.ServiceStub."
KW = {"timeout": "obj", "deadline": "obj", "metadata": "obj"}
PRECEDENCE = [("C11-call-level-timeout-wins", "same(REQ_TIMEOUT(), STUB_TIMEOUT() if is_none(timeout) else timeout)"),
              ("C11-call-level-deadline-wins", "same(REQ_DEADLINE(), STUB_DEADLINE() if is_none(deadline) else deadline)"),
              ("C11-call-level-metadata-wins", "same(REQ_METADATA(), STUB_METADATA() if is_none(metadata) else metadata)")]


def OPEN(card, reqtype):
    return [("C11-one-stream-on-the-route", "OPENED() == 1 and REQ_ROUTE() == route"),
            ("C11-cardinality-matches-the-helper", f"REQ_CARD() == {card}"),
            ("C11-message-types", f"same(REQ_TYPE(), {reqtype}) and same(RESP_TYPE(), response_type)")] + PRECEDENCE


FRAME_GS = ("stream-otherwise-untouched", "OPENED() == old(OPENED()) and RECEIVED() == old(RECEIVED()) and RPOS() == old(RPOS())"
                                           " and HANDLER_CALLS() == old(HANDLER_CALLS()) and CLOSED_ITER() == old(CLOSED_ITER())")

CONTRACTS = [
    FN(S + "__resolve_request_kwargs", types={"self": "model:stub", **KW}, returns="any", inline_at_calls=True,
       ensures=[("C11-call-level-value-unless-None",
                 "same(result['timeout'], STUB_TIMEOUT() if is_none(timeout) else timeout)"
                 " and same(result['deadline'], STUB_DEADLINE() if is_none(deadline) else deadline)"
                 " and same(result['metadata'], STUB_METADATA() if is_none(metadata) else metadata)")],
       top=["C11-call-level-value-unless-None"], props=["C11"]),
    FN(S + "_send_messages", types={"stream": "model:gstream", "messages": "model:source"}, returns="none",
       modifies=["@gs.trace", "@gs.sent"],
       ensures=[("C11-every-message-in-order-then-end", "TRACE() == old(TRACE()) + REP(2, SRC_N(messages)) + B(3)"
                                                        " and SENT() == old(SENT()) + SRC_SEQ(messages)")],
       top=["C11-every-message-in-order-then-end"],
       loops={0: LOOP(index="mi", inv=[("sent-so-far", "TRACE() == old(TRACE()) + REP(2, mi) + b'' and SENT() == old(SENT()) + SRC_SEQ(messages)[0:mi]"), FRAME_GS]),
              1: LOOP(index="mi", inv=[("sent-so-far", "TRACE() == old(TRACE()) + REP(2, mi) + b'' and SENT() == old(SENT()) + SRC_SEQ(messages)[0:mi]"), FRAME_GS])},
       props=["C11", "C12"]),
    FN(S + "_unary_unary", types={"self": "model:stub", "route": "str", "request": "obj", "response_type": "model:pytype", **KW},
       returns="obj", modifies=["self"],
       requires=[("a-response-arrives", "NRESP() >= 1 and not is_none(RESPONSES()[0])")],
       ensures=OPEN(0, "TYPE_OF(request)") + [
           ("C11-request-sent-once-and-ended", "TRACE() == B(4) + B(5) and SENT() == SEQ1(request)"),
           ("C11-returns-the-response", "same(result, RESPONSES()[0])")],
       top=["C11-cardinality-matches-the-helper", "C11-request-sent-once-and-ended", "C11-returns-the-response"], props=["C11"]),
    FN(S + "_stream_unary",
       types={"self": "model:stub", "route": "str", "request_iterator": "model:source", "request_type": "model:pytype",
              "response_type": "model:pytype", **KW}, returns="obj", modifies=["self"],
       requires=[("a-response-arrives", "NRESP() >= 1 and not is_none(RESPONSES()[0])")],
       ensures=OPEN(2, "request_type") + [
           ("C11-request-stream-sent-in-order-and-ended", "TRACE() == B(1) + REP(2, SRC_N(request_iterator)) + B(3) + B(5)"
                                                          " and SENT() == SRC_SEQ(request_iterator)"),
           ("C11-returns-the-response", "same(result, RESPONSES()[0])")],
       top=["C11-cardinality-matches-the-helper", "C11-request-stream-sent-in-order-and-ended"], props=["C11"]),
    FN(S + "_unary_stream", generator=True,
       types={"self": "model:stub", "route": "str", "request": "obj", "response_type": "model:pytype", **KW}, modifies=["self"],
       loops={0: LOOP(index="ri", inv=[("opened", "OPENED() == 1 and REQ_ROUTE() == route and REQ_CARD() == 1 and TRACE() == B(4) and SENT() == SEQ1(request)"
                                                   " and same(REQ_TYPE(), TYPE_OF(request)) and same(RESP_TYPE(), response_type)")])},
       yields=[("C11-responses-in-order", "same(yielded, RESPONSES()[ri])")],
       ends=[("C11-all-responses-delivered", "ri == NRESP() and REQ_CARD() == 1 and TRACE() == B(4) and SENT() == SEQ1(request)")] + PRECEDENCE,
       props=["C11"]),
    FN(S + "_stream_stream", generator=True,
       types={"self": "model:stub", "route": "str", "request_iterator": "model:source", "request_type": "model:pytype",
              "response_type": "model:pytype", **KW}, modifies=["self"],
       loops={0: LOOP(index="ri", inv=[("opened", "OPENED() == 1 and REQ_ROUTE() == route and REQ_CARD() == 3 and TRACE() == B(1)"
                                                   " and same(REQ_TYPE(), request_type) and same(RESP_TYPE(), response_type)")])},
       yields=[("C11-responses-in-order", "same(yielded, RESPONSES()[ri])")],
       ends=[("C11-all-responses-delivered", "ri == NRESP() and REQ_CARD() == 3 and TRACE() == B(1)")] + PRECEDENCE,
       props=["C11"]),
    FN("betterproto.grpc.grpclib_server.ServiceBase._call_rpc_handler_server_stream",
       types={"self": "model:servicebase", "handler": "model:handler", "stream": "model:gstream", "request": "obj"},
       returns="none", modifies=["stream"],
       ensures=[("C11-handler-invoked-once-with-the-request", "HANDLER_CALLS() == 1 and same(HANDLER_ARG(), request)"),
                ("C11-every-response-sent-in-order", "SENT() == old(SENT()) + HANDLER_ITEMS() or CLOSED_ITER()")],
       top=["C11-handler-invoked-once-with-the-request", "C11-every-response-sent-in-order"],
       loops={0: LOOP(index="hi", inv=[("sent-so-far", "SENT() == old(SENT()) + HANDLER_ITEMS()[0:hi] and HANDLER_CALLS() == 1 and same(HANDLER_ARG(), request) and not CLOSED_ITER()")])},
       props=["C11"]),
]
