"""Contracts for the Message decode side: load / _postprocess_single / _wire_type_matches / parse / FromString
(C10 accounting, C08 unknown fields, C17 isolation of misfits, C02 merge semantics, C07 last-wins)."""
from pyvc.contracts import FN, LOOP, LEMMA
from pyvc.models_wire import WirePlugin
from pyvc.models_msg import MsgPlugin
from contracts import varint as _v, single as _s, frame as _f, msg as _m

DEPENDS = ['varint', 'single', 'frame', 'msg']
SPEC_MODULES = ("wire", "msg", "decode")
PLUGINS = _m.PLUGINS

MSG = {"self": "model:msg"}
PRE = [("well-formed-class", "WF()"), ("tree-shaped-value", "SHAPE()"), ("containers-match-declaration", "STRUCT()")]
LEMMAS = _m.LEMMAS + [
    LEMMA("AX_UNPACKF_TYPE", {"fmt": "str", "b": "bytes"}, [],
          "is_float(UNPACKF(fmt, b)) if (fmt == '<f' or fmt == '<d') else is_pint(UNPACKF(fmt, b))",
          assumed=True, notes="A-STRUCT: struct.unpack yields a float for f/d formats and an int for integer formats",
          props=["C17", "C01"]),
    LEMMA("AX_SUBPARSE_NOT_CONTAINER", {"w": "str", "i": "int", "b": "bytes"}, [],
          "not is_list(WRAPPARSE(w, b)) and not is_dict(WRAPPARSE(w, b)) and not is_list(ENTRYPARSE(i, b)) and not is_dict(ENTRYPARSE(i, b))"
          " and not is_list(UTF8DEC(b)) and is_msg(MSGPARSE(i, b)) and is_dt(TSPARSE(b)) and is_td(DURPARSE(b))",
          assumed=True, notes="C-SUBPARSE: values obtained by parsing a nested payload are scalars / messages, never bare containers",
          props=["C17", "C01"]),
]

I = "IDXN(parsed.number)"
KNOWN = f"({I} >= 0 and FITS(F_ptype({I}), F_dkind({I}) == 'list', parsed.wire_type))"
DEC1 = f"DECV(F_ptype({I}), F_ckind({I}), F_wraps({I}), {I}, parsed.wire_type, parsed.value)"
PACKEDREC = f"(parsed.wire_type == 2 and IS_PACKED_KIND(F_ptype({I})))"
HEAD = {"RAW_H": "RAWARR()", "GC_H": "GCARR()", "UNK_H": "UNKF()", "HL_H": "HEAP_LIST()", "HDK_H": "HEAP_DK()",
        "HDV_H": "HEAP_DV()"}
MAYRAISE = [("ValueError", "may", ""), ("EOFError", "may", ""), ("UnicodeDecodeError", "may", ""),
            ("StructError", "may", ""), ("OverflowError", "may", "")]

CONTRACTS = [
    FN("betterproto._wire_type_matches", types={"proto_type": "str", "wire_type": "int", "repeated": "bool"}, returns="bool",
       requires=[("known-kind", "KNOWN_KIND(proto_type)")],
       ensures=[("C17-fits", "result == FITS(proto_type, repeated, wire_type)")], top=["C17-fits"],
       props=["C17", "C02", "C08"], witness={"proto_type": "int32", "wire_type": 2, "repeated": True}),
    FN("betterproto.Message._postprocess_single",
       types={**MSG, "wire_type": "int", "meta": "model:meta", "field_name": "model:fname", "value": "obj"}, returns="obj",
       requires=PRE + [("field", "0 <= FNAME_IDX(field_name) < NF and meta.proto_type == F_ptype(FNAME_IDX(field_name))"
                                 " and (is_none(meta.wraps) if F_wraps(FNAME_IDX(field_name)) == '' else (is_str(meta.wraps) and as_str(meta.wraps) == F_wraps(FNAME_IDX(field_name))))"),
                       ("wire-type-of-kind", "wire_type == WT(meta.proto_type)"),
                       ("payload-shape", "PAYLOAD_OK(wire_type, value) or ((wire_type == 1 or wire_type == 5) and is_bytes(value))")],
       ensures=[("C01-decoded-value", "same(result, DECV(meta.proto_type, F_ckind(FNAME_IDX(field_name)), F_wraps(FNAME_IDX(field_name)), FNAME_IDX(field_name), wire_type, value))"),
                ("C17-typed-result", "PYTYPED(meta.proto_type, F_ckind(FNAME_IDX(field_name)), F_wraps(FNAME_IDX(field_name)), result)"),
                ("frame", "RAWARR() == old(RAWARR()) and GCARR() == old(GCARR()) and UNKF() == old(UNKF()) and SOWF() == old(SOWF())"
                          " and HEAP_LIST() == old(HEAP_LIST()) and HEAP_DK() == old(HEAP_DK()) and HEAP_DV() == old(HEAP_DV())")],
       top=["C01-decoded-value", "C17-typed-result"],
       raises=MAYRAISE, inst_terms=["FNAME_IDX(field_name)"],
       use=[("AX_UNPACKF_TYPE", {"fmt": "FMT(meta.proto_type)", "b": "as_bytes(old(value))"})],
       props=["C01", "C02", "C08", "C16", "C17", "C20"]),
    FN("betterproto.Message.load",
       types={**MSG, "stream": "stream", "size": "obj"}, returns="any", modifies=["self", "stream"],
       requires=PRE + [("size-argument", "is_none(size) or (is_pint(size) and as_int(size) >= -1)")],
       ghost={"D0": "stream.data", "P0": "stream.pos",
              "S0": "(stream.pos + VLEN(stream.data[stream.pos:])) if (is_int(size) and as_int(size) == -1) else stream.pos",
              "L": "VDEC(stream.data[stream.pos:stream.pos + VLEN(stream.data[stream.pos:])]) if (is_int(size) and as_int(size) == -1) else as_int(size)"},
       ensures=[("C10-consumes-exactly-its-message", "implies(not is_none(size), stream.pos == S0 + L and S0 + L <= len(D0))"),
                ("C10-whole-stream-when-unsized", "implies(is_none(size), stream.pos == len(D0))"),
                ("frame-stream", "stream.data == D0"),
                ("C06-received", "SOWF()")],
       top=["C10-consumes-exactly-its-message"],
       raises=MAYRAISE,
       loops={
           0: LOOP(index="ri",
                   inv=[("frame", "stream.data == D0 and S0 <= stream.pos <= len(D0) and SOWF()"),
                        ("C10-accounting", "implies(not is_none(size), read == stream.pos - S0 and read < L)"),
                        ("shape", "SHAPE()"), ("struct", "STRUCT()")],
                   ghost_head=dict(HEAD, POS_H="stream.pos"),
                   use=[("AX_SUBPARSE_NOT_CONTAINER", {"w": f"F_wraps({I})", "i": I, "b": "as_bytes(parsed.value)"}),
                        ("AX_UNPACKF_TYPE", {"fmt": f"FMT(F_ptype({I}))", "b": "as_bytes(parsed.value)"})],
                   step=[
                       ("C08-C17-unknown-or-misfit-is-kept-verbatim",
                        f"implies(not {KNOWN}, UNKF() == UNK_H + parsed.raw and RAWARR() == RAW_H and GCARR() == GC_H"
                        " and HEAP_LIST() == HL_H and HEAP_DK() == HDK_H and HEAP_DV() == HDV_H)"),
                       ("C08-known-fields-leave-unknown-bytes-alone", f"implies({KNOWN}, UNKF() == UNK_H)"),
                       ("C17-touches-only-its-field-and-group",
                        f"implies({KNOWN}, forall(0, NF, lambda jq: implies(jq != {I} and not (INGROUP({I}) and F_group(jq) == F_group({I})),"
                        " same(RAWV(jq), SELECT(RAW_H, jq)) or (is_placeholder(SELECT(RAW_H, jq)) and same(RAWV(jq), DEFOBJ(jq))))))"),
                       ("C02-singular-last-wins",
                        f"implies({KNOWN} and F_dkind({I}) != 'list' and F_dkind({I}) != 'dict', same(RAWV({I}), {DEC1}))"),
                       ("C07-oneof-member-becomes-selected",
                        f"implies({KNOWN} and INGROUP({I}), GCV(F_group({I})) == {I} and forall(0, NF, lambda jq:"
                        f" implies(jq != {I} and F_group(jq) == F_group({I}), is_placeholder(RAWV(jq)))))"),
                       ("C02-repeated-element-appends",
                        f"implies({KNOWN} and F_dkind({I}) == 'list' and not {PACKEDREC},"
                        f" XS(VAL({I})) == SELECT(HL_H, LISTREF(VALOF(RAW_H, {I}))) + SEQ1({DEC1}))"),
                       ("C02-packed-chunk-extends",
                        f"implies({KNOWN} and F_dkind({I}) == 'list' and {PACKEDREC},"
                        f" XS(VAL({I})) == SELECT(HL_H, LISTREF(VALOF(RAW_H, {I}))) + DECSEQ(F_ptype({I}), {I}, as_bytes(parsed.value), 0))"),
                   ]),
           1: LOOP(inv=[("decoded", f"XS(value) + DECSEQ(F_ptype({I}), {I}, as_bytes(parsed.value), pos) == DECSEQ(F_ptype({I}), {I}, as_bytes(parsed.value), 0)"),
                        ("pos", "0 <= pos"),
                        ("fresh", "is_list(value) and forall(0, NF, lambda jq: implies(is_list(RAWV(jq)), LISTREF(RAWV(jq)) != LISTREF(value)) and implies(is_list(DEFOBJ(jq)), LISTREF(DEFOBJ(jq)) != LISTREF(value)))"),
                        ("frame", "RAWARR() == RAW_H and GCARR() == GC_H and UNKF() == UNK_H and HEAP_DK() == HDK_H and HEAP_DV() == HDV_H and SOWF()"
                                  " and forall(0, NF, lambda jq: implies(is_list(VALOF(RAW_H, jq)), SELECT(HEAP_LIST(), LISTREF(VALOF(RAW_H, jq))) == SELECT(HL_H, LISTREF(VALOF(RAW_H, jq)))))"
                                  " and stream.data == D0 and stream.pos == POS_H2")],
                   ghost_init={"POS_H2": "stream.pos"},
                   decreases="len(as_bytes(parsed.value)) - pos"),
       },
       inst_terms=[I, "ri"],
       use=[("AX_SUBPARSE_NOT_CONTAINER", {"w": f"F_wraps({I})", "i": I, "b": "as_bytes(parsed.value)"}),
            ("AX_UNPACKF_TYPE", {"fmt": f"FMT(F_ptype({I}))", "b": "as_bytes(parsed.value)"})],
       props=["C10", "C08", "C17", "C02", "C07", "C01", "C06"]),
]
EXTRA_CONTRACTS = _m.CONTRACTS + _f.CONTRACTS + _s.CONTRACTS + _v.CONTRACTS
