"""C10 — delimited streams read back intact; truncation never yields a partial message."""
AREAS = ["varint", "frame", "msg", "msgload"]
LEVEL = "proof"
EXPLANATION = (
    "dump(.., SIZE_DELIMITED) writes varint(len) ++ WIRE (msg area). Message.load is verified with the loop invariant "
    "read == stream.pos - S0 and read < L: on every normal return with a size the stream position is exactly S0 + L (its "
    "own message, also for unknown fields and empty messages) and S0 + L <= len(stream); load_fields' step contract "
    "guarantees that no truncated payload is ever yielded and that the generator ends only at a record boundary, so a cut "
    "frame cannot produce a normal return.")
ASSUMED = ["A-BYTESIO stream model", "the framing equals the reference framing by definition of VARINT (C16) - checked against google.protobuf only by the bounded stand-in"]
from pyvc.check import standin_bounded
from pyvc.check import external_bounded
BOUNDED = [standin_bounded("C10"),
           external_bounded("deep-schema:C10", "standin.deep", ["C10", "--n", "150"], ["C10", "--n", "800"],
                            "field numbers whose tags take 2..5 bytes (32 .. 2**29-1) in every presence discipline: encoding vs reference, decode, len, delimited round trip, read as unknown fields")]
