"""Symbolic values and z3 helpers for pyvc.

Python `int` is unbounded, so program integers are z3 mathematical Ints (exact).
bytes / bytearray are Seq(Int) with every element in 0..255 (invariant kept by
construction + side obligations).  str is z3 String.  Values of unknown static
type (`Any`) are the datatype PyObj.
"""
import z3

IntS = z3.IntSort()
BoolS = z3.BoolSort()
BytesS = z3.SeqSort(IntS)
StrS = z3.StringSort()


def _mk_pyobj():
    d = z3.Datatype("PyObj")
    d.declare("PNone")
    d.declare("PPlaceholder")
    d.declare("PBool", ("pbool", BoolS))
    d.declare("PInt", ("pint", IntS))
    d.declare("PFloat", ("pfloat", IntS))      # opaque float id
    d.declare("PStr", ("pstr", StrS))
    d.declare("PBytes", ("pbytes", BytesS))
    d.declare("PList", ("plist", IntS))        # heap ref
    d.declare("PDict", ("pdict", IntS))        # heap ref
    d.declare("PMsg", ("pmsg", IntS))          # heap ref
    d.declare("PEnum", ("penum_cls", IntS), ("penum_val", IntS))
    d.declare("PDatetime", ("pdt_us", IntS))   # aware datetime, us since epoch
    d.declare("PTimedelta", ("ptd_us", IntS))
    d.declare("POther", ("pother", IntS))
    return d.create()


PyObj = _mk_pyobj()


class SV:
    """A symbolic value: kind + payload.

    kinds: int bool bytes str none obj(PyObj) tuple(list[SV]) const(python object)
           stream(key) rec(dict[str,SV], cls) func(descr) exc(cls name)
    """
    __slots__ = ("kind", "t", "extra")

    def __init__(self, kind, t=None, extra=None):
        self.kind = kind
        self.t = t
        self.extra = extra

    def __repr__(self):
        return f"SV({self.kind},{self.t!r})"


def sv_int(t):
    if isinstance(t, int):
        t = z3.IntVal(t)
    return SV("int", t)


def sv_bool(t):
    if isinstance(t, bool):
        t = z3.BoolVal(t)
    return SV("bool", t)


def sv_bytes(t):
    if isinstance(t, (bytes, bytearray)):
        t = bytes_val(t)
    return SV("bytes", t)


def sv_str(t):
    if isinstance(t, str):
        t = z3.StringVal(t)
    return SV("str", t)


NONE = SV("none")


def sv_tuple(items):
    return SV("tuple", list(items))


def bytes_val(b):
    if len(b) == 0:
        return z3.Empty(BytesS)
    if len(b) == 1:
        return z3.Unit(z3.IntVal(b[0]))
    return z3.Concat(*[z3.Unit(z3.IntVal(x)) for x in b])


def concrete_int(t):
    """Return python int if z3 term simplifies to a numeral else None."""
    if isinstance(t, int):
        return t
    s = z3.simplify(t)
    if z3.is_int_value(s):
        return s.as_long()
    return None


def concrete_str(t):
    s = z3.simplify(t)
    if z3.is_string_value(s):
        return s.as_string()
    return None


def concrete_bool(t):
    s = z3.simplify(t)
    if z3.is_true(s):
        return True
    if z3.is_false(s):
        return False
    return None


def pow2_table(e, lo=0, hi=72):
    """2**e as an If-chain table for lo<=e<=hi (e symbolic Int)."""
    c = concrete_int(e)
    if c is not None:
        return z3.IntVal(2 ** c)
    r = z3.IntVal(2 ** hi)
    for k in range(hi - 1, lo - 1, -1):
        r = z3.If(e == k, z3.IntVal(2 ** k), r)
    return r


def from_python(v):
    """Lift a concrete python value to an SV."""
    if isinstance(v, SV):
        return v
    if v is None:
        return NONE
    if isinstance(v, bool):
        return sv_bool(v)
    if isinstance(v, int):
        return sv_int(v)
    if isinstance(v, (bytes, bytearray)):
        return sv_bytes(bytes(v))
    if isinstance(v, str):
        return sv_str(v)
    if isinstance(v, tuple):
        return SV("const", v)
    return SV("const", v)


FLOAT_INF_ID, FLOAT_NAN_ID, FLOAT_NINF_ID = 3, 4, 7      # reserved ids of the opaque float model (native: decode_obj)


def float_special_id(x):
    if x != x:
        return FLOAT_NAN_ID
    if x == float("inf"):
        return FLOAT_INF_ID
    if x == float("-inf"):
        return FLOAT_NINF_ID
    return None


def to_obj(v):
    """Coerce an SV into a PyObj term."""
    k = v.kind
    if k == "obj":
        return v.t
    if k == "int":
        return PyObj.PInt(v.t)
    if k == "bool":
        return PyObj.PBool(v.t)
    if k == "bytes":
        return PyObj.PBytes(v.t)
    if k == "str":
        return PyObj.PStr(v.t)
    if k == "none":
        return PyObj.PNone
    if k == "const" and isinstance(v.t, float):
        fid = float_special_id(v.t)
        if fid is not None:
            return PyObj.PFloat(z3.IntVal(fid))
    raise TypeError(f"cannot box {v}")


def fmt_model_value(m, t):
    try:
        return str(m.eval(t, model_completion=True))
    except Exception as e:  # pragma: no cover
        return f"<{e}>"
