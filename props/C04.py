"""C04 — JSON / dict round trip."""
AREAS = ["time", "jsonscalar"]
LEVEL = "other"
EXPLANATION = (
    "Bounded: from_dict(to_dict(m)) / from_json(to_json(m)) on the stand-in corpus (all kinds, maps of every key kind, "
    "wrappers, oneofs, optionals, both casings, classmethod and instance form). Deductive part: the per-kind links - _scalar_to_json / "
    "_scalar_from_json / _map_key_from_json / _dump_float / _parse_float against the proto3 JSON mapping spec (spec/jsonmap.py) "
    "with the lemmas JSON_SCALAR_ROUNDTRIP and JSON_KEY_ROUNDTRIP (reading the canonical form of a well-typed scalar / map key "
    "gives it back, under the assumed codec laws int(str(n)) == n and b64decode(b64encode(b)) == b), and the Timestamp / Duration "
    "converters feeding the JSON forms (time area). The composition over fields in to_dict/_from_dict_init (which use comprehensions, json, base64 and "
    "dateutil) is outside the proved subset and decided by the bounded stand-in.")
ASSUMED = ["to_dict / _from_dict_init are not under contract: bounded stand-in only"]
from pyvc.check import standin_bounded
from pyvc.check import external_bounded
BOUNDED = [standin_bounded("C04"),
           external_bounded("deep-schema:C04", "standin.deep", ["C04", "--n", "150"], ["C04", "--n", "800"],
                            "nested schema (containers of oneof-carrying / field-less messages, two-level lazy parents, float maps, Duration JSON strings); observation-based oracle")]
