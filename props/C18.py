"""C18 — every supported plugin option yields importable, behaviourally identical code."""
AREAS = ["typingc", "names"]
LEVEL = "other"
EXPLANATION = (
    "Under contract: the 3 x 7 methods of the typing compilers (each returns the type-expression text of its "
    "configuration - Optional[x] / typing.Optional[x] / \"x | None\" ... - and records exactly the import it needs). "
    "Option parsing inside generate_code, the pydantic variant, the template sites that quote compiler output and the "
    "importability / behavioural identity of the six configurations are outside the proved subset (Jinja, large "
    "object graph): decided by the bounded end-to-end stand-in (real plugin, 3 x 2 configurations, same schemas, "
    "compare metadata, bytes and JSON).")
ASSUMED = ["A-RUFF (formatter absent: pass-through shim)", "generate_code option parsing, templates, pydantic: bounded end-to-end only"]
from pyvc.check import external_bounded
BOUNDED = [external_bounded("plugin-end-to-end:C18", "standin_plugin.run", ["C18", "--n", "4"], ["C18", "--n", "30"],
                            "real plugin on generated schemas under all 3 x 2 option combinations")]
