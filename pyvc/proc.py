"""subprocess.run look-alike that puts the child in its own session and kills the whole process group on timeout:
a library change that makes e.g. the protoc plugin loop for ever must not leave grandchildren behind (subprocess.run
only kills the direct child)."""
import os
import signal
import subprocess


def run(cmd, timeout=None, input=None, **kw):
    kw.setdefault("stdout", subprocess.PIPE)
    kw.setdefault("stderr", subprocess.PIPE)
    kw.setdefault("text", True)
    if input is not None:
        kw["stdin"] = subprocess.PIPE
    p = subprocess.Popen(cmd, start_new_session=True, **kw)
    try:
        out, err = p.communicate(input=input, timeout=timeout)
    except subprocess.TimeoutExpired:
        try:
            os.killpg(p.pid, signal.SIGKILL)
        except (ProcessLookupError, PermissionError):
            pass
        try:
            out, err = p.communicate(timeout=10)
        except Exception:
            out, err = "", ""
        raise subprocess.TimeoutExpired(cmd, timeout, output=out, stderr=err)
    finally:
        # whatever the child left running in its session (a plugin protoc did not wait for, ...)
        try:
            os.killpg(p.pid, signal.SIGKILL)
        except (ProcessLookupError, PermissionError):
            pass
    return subprocess.CompletedProcess(cmd, p.returncode, out, err)
