"""Contracts for the three typing compilers (C18): each method returns the type-expression text of its
configuration and records the import it needs.  UNQ(t) = t without its surrounding double quotes, if quoted."""
from pyvc.contracts import FN, LOOP, LEMMA
from pyvc.models_typing import TypingPlugin

DEPENDS = []
SPEC_MODULES = ("wire",)
PLUGINS = [TypingPlugin()]
LEMMAS = []
T = "betterproto.plugin.typing_compiler."
SELF = {"self": "model:tcompiler"}
ONE = {**SELF, "type": "model:typestr"}
UNQ = lambda v: f"({v}[1:-1] if {v}[0:1] == '\"' else {v})"
CONTRACTS = [
    FN(T + "NoTyping310TypingCompiler._fmt", types={"type": "model:typestr"}, returns="str",
       ensures=[("strips-one-pair-of-quotes", f"result == {UNQ('type')}")], props=["C18"]),
    FN(T + "DirectImportTypingCompiler.optional", types=ONE, returns="str", modifies=["self"],
       ensures=[("C18-type-expression", "result == 'Optional[' + type + ']' and IMPORTED('typing', 'Optional')")], top=["C18-type-expression"], props=["C18"]),
    FN(T + "TypingImportTypingCompiler.optional", types=ONE, returns="str", modifies=["self"],
       ensures=[("C18-type-expression", "result == 'typing.Optional[' + type + ']' and IMPORTED_FLAG()")], top=["C18-type-expression"], props=["C18"]),
    FN(T + "DirectImportTypingCompiler.list", types=ONE, returns="str", modifies=["self"],
       ensures=[("C18-type-expression", "result == 'List[' + type + ']' and IMPORTED('typing', 'List')")], top=["C18-type-expression"], props=["C18"]),
    FN(T + "TypingImportTypingCompiler.list", types=ONE, returns="str", modifies=["self"],
       ensures=[("C18-type-expression", "result == 'typing.List[' + type + ']' and IMPORTED_FLAG()")], top=["C18-type-expression"], props=["C18"]),
    FN(T + "DirectImportTypingCompiler.iterable", types=ONE, returns="str", modifies=["self"],
       ensures=[("C18-type-expression", "result == 'Iterable[' + type + ']' and IMPORTED('typing', 'Iterable')")], top=["C18-type-expression"], props=["C18"]),
    FN(T + "TypingImportTypingCompiler.iterable", types=ONE, returns="str", modifies=["self"],
       ensures=[("C18-type-expression", "result == 'typing.Iterable[' + type + ']' and IMPORTED_FLAG()")], top=["C18-type-expression"], props=["C18"]),
    FN(T + "DirectImportTypingCompiler.async_iterable", types=ONE, returns="str", modifies=["self"],
       ensures=[("C18-type-expression", "result == 'AsyncIterable[' + type + ']' and IMPORTED('typing', 'AsyncIterable')")], top=["C18-type-expression"], props=["C18"]),
    FN(T + "TypingImportTypingCompiler.async_iterable", types=ONE, returns="str", modifies=["self"],
       ensures=[("C18-type-expression", "result == 'typing.AsyncIterable[' + type + ']' and IMPORTED_FLAG()")], top=["C18-type-expression"], props=["C18"]),
    FN(T + "DirectImportTypingCompiler.async_iterator", types=ONE, returns="str", modifies=["self"],
       ensures=[("C18-type-expression", "result == 'AsyncIterator[' + type + ']' and IMPORTED('typing', 'AsyncIterator')")], top=["C18-type-expression"], props=["C18"]),
    FN(T + "TypingImportTypingCompiler.async_iterator", types=ONE, returns="str", modifies=["self"],
       ensures=[("C18-type-expression", "result == 'typing.AsyncIterator[' + type + ']' and IMPORTED_FLAG()")], top=["C18-type-expression"], props=["C18"]),
    FN(T + "DirectImportTypingCompiler.dict", types={**SELF, "key": "model:typestr", "value": "model:typestr"}, returns="str", modifies=["self"],
       ensures=[("C18-type-expression", "result == 'Dict[' + key + ', ' + value + ']' and IMPORTED('typing', 'Dict')")], props=["C18"]),
    FN(T + "TypingImportTypingCompiler.dict", types={**SELF, "key": "model:typestr", "value": "model:typestr"}, returns="str", modifies=["self"],
       ensures=[("C18-type-expression", "result == 'typing.Dict[' + key + ', ' + value + ']' and IMPORTED_FLAG()")], props=["C18"]),
    FN(T + "NoTyping310TypingCompiler.dict", types={**SELF, "key": "model:typestr", "value": "model:typestr"}, returns="str", modifies=["self"],
       ensures=[("C18-type-expression", f"result == '\"dict[' + key + ', ' + {UNQ('value')} + ']\"'")], props=["C18"]),
    FN(T + "NoTyping310TypingCompiler.optional", types=ONE, returns="str", modifies=["self"],
       ensures=[("C18-type-expression", f"result == '\"' + {UNQ('type')} + ' | None\"'")], props=["C18"]),
    FN(T + "NoTyping310TypingCompiler.list", types=ONE, returns="str", modifies=["self"],
       ensures=[("C18-type-expression", f"result == '\"list[' + {UNQ('type')} + ']\"'")], props=["C18"]),
    FN(T + "NoTyping310TypingCompiler.iterable", types=ONE, returns="str", modifies=["self"],
       ensures=[("C18-type-expression", "result == '\"Iterable[' + type + ']\"' and IMPORTED('collections.abc', 'Iterable')")], props=["C18"]),
    FN(T + "NoTyping310TypingCompiler.async_iterable", types=ONE, returns="str", modifies=["self"],
       ensures=[("C18-type-expression", "result == '\"AsyncIterable[' + type + ']\"' and IMPORTED('collections.abc', 'AsyncIterable')")], props=["C18"]),
    FN(T + "NoTyping310TypingCompiler.async_iterator", types=ONE, returns="str", modifies=["self"],
       ensures=[("C18-type-expression", "result == '\"AsyncIterator[' + type + ']\"' and IMPORTED('collections.abc', 'AsyncIterator')")], props=["C18"]),
    FN(T + "DirectImportTypingCompiler.union", types={**SELF, "types": "model:typestrs"}, returns="str", modifies=["self"],
       variants=[("arity2", {"types": 2}), ("arity3", {"types": 3})],
       ensures=[("C18-type-expression", "result == 'Union[' + ', '.join(types) + ']' and IMPORTED('typing', 'Union')")], props=["C18"]),
    FN(T + "TypingImportTypingCompiler.union", types={**SELF, "types": "model:typestrs"}, returns="str", modifies=["self"],
       variants=[("arity2", {"types": 2}), ("arity3", {"types": 3})],
       ensures=[("C18-type-expression", "result == 'typing.Union[' + ', '.join(types) + ']' and IMPORTED_FLAG()")], props=["C18"]),
    FN(T + "NoTyping310TypingCompiler.union", types={**SELF, "types": "model:typestrs"}, returns="str", modifies=["self"],
       variants=[("arity2", {"types": 2})],
       ensures=[("C18-type-expression", f"result == '\"' + {UNQ('types[0]')} + ' | ' + {UNQ('types[1]')} + '\"'")], props=["C18"]),
]
