#!/usr/bin/env python3
"""dev tool: validate MANIFEST.json and every evidence file against the schemas (run under python3-vt: jsonschema)."""
import json, glob, sys
import jsonschema
ok = True
m = json.load(open("/verif/MANIFEST.json"))
try:
    jsonschema.validate(m, json.load(open("/root/.vp/MANIFEST.schema.json")))
except jsonschema.ValidationError as e:
    ok = False; print("MANIFEST", e.message[:300])
es = json.load(open("/root/.vp/EVIDENCE.schema.json"))
for f in sorted(glob.glob("/verif/evidence/*.json")):
    try:
        jsonschema.validate(json.load(open(f)), es)
    except jsonschema.ValidationError as e:
        ok = False; print(f, e.message[:300])
print("valid" if ok else "INVALID", len(glob.glob("/verif/evidence/*.json")), "evidence files")
sys.exit(0 if ok else 1)
