"""Token-term model for the import/reference builders of betterproto.compile.importing (C13).

Package paths are Python lists of CONCRETE length whose elements are symbolic identifier atoms (z3 String
variables constrained to [a-z_][a-z0-9_]*; they contain no '.', ' ' or '"').  Strings built by the code are z3
concatenations of literal chunks and atoms; the spec reading of an import line decomposes such a term into its
token list and interprets it with Python's relative-import rule (A-IMPORT).  Equality of token lists is syntactic
(sound: equal terms are equal strings)."""
import z3

from .sym import SV, NONE, sv_bool, sv_str, sv_int, sv_tuple, concrete_int, concrete_str
from .exec import Unsupported, Raised

PKG_ATOM = z3.Concat(z3.Union(z3.Range("a", "z"), z3.Re("_")), z3.Star(z3.Union(z3.Range("a", "z"), z3.Range("0", "9"), z3.Re("_"))))
TYPE_ATOM = z3.Concat(z3.Union(z3.Range("A", "Z"), z3.Range("a", "z"), z3.Re("_")),
                      z3.Star(z3.Union(z3.Range("A", "Z"), z3.Range("a", "z"), z3.Range("0", "9"), z3.Re("_"))))


def tokens(t):
    """decompose a string term into [('lit', str) | ('atom', term)] (adjacent literals merged)"""
    t = z3.simplify(t)
    out = []

    def walk(x):
        if z3.is_string_value(x):
            if x.as_string():
                if out and out[-1][0] == "lit":
                    out[-1] = ("lit", out[-1][1] + x.as_string())
                else:
                    out.append(("lit", x.as_string()))
        elif z3.is_app(x) and x.decl().kind() == z3.Z3_OP_SEQ_CONCAT:
            for c in x.children():
                walk(c)
        else:
            out.append(("atom", x))
    walk(t)
    return out


def split_tokens(toks, seps):
    """split a token list at separator characters occurring in literal chunks -> list of words, each a token list"""
    words, cur = [], []
    for kind, v in toks:
        if kind == "atom":
            cur.append((kind, v))
            continue
        buf = ""
        for ch in v:
            if ch in seps:
                if buf:
                    cur.append(("lit", buf))
                    buf = ""
                words.append((cur, ch))
                cur = []
            else:
                buf += ch
        if buf:
            cur.append(("lit", buf))
    words.append((cur, None))
    return words


def same_word(a, b):
    if len(a) != len(b):
        return False
    for (ka, va), (kb, vb) in zip(a, b):
        if ka != kb:
            return False
        if ka == "lit" and va != vb:
            return False
        if ka == "atom" and not va.eq(vb):
            return False
    return True


def word_of(sv):
    return tokens(sv.t)


def parse_import_line(line):
    """'from <dots><a.b> import <name> as <alias>' | 'from <dots><a.b> import <name>' | 'import <a.b.c> as <alias>'
    -> dict(kind, dots, path[list of words], name word, alias word)"""
    toks = tokens(line)
    words = [w for w, sep in split_tokens(toks, " ")]
    if not words or not words[0] or words[0][0][0] != "lit":
        return None
    head = words[0][0][1] if len(words[0]) == 1 else None
    if head == "import" and len(words) == 4 and same_word(words[2], [("lit", "as")]):
        path = [w for w, _ in split_tokens(words[1], ".")]
        return {"kind": "absolute", "path": path, "alias": words[3]}
    if head == "from" and len(words) in (4, 6) and same_word(words[2], [("lit", "import")]):
        src = words[1]
        dots = 0
        # leading dots live in the first literal chunk
        if src and src[0][0] == "lit":
            lit = src[0][1]
            while dots < len(lit) and lit[dots] == ".":
                dots += 1
            rest = lit[dots:]
            src = ([("lit", rest)] if rest else []) + src[1:]
        path = [w for w, _ in split_tokens(src, ".")] if src else []
        path = [w for w in path if w]
        name = words[3]
        alias = words[5] if len(words) == 6 and same_word(words[4], [("lit", "as")]) else name
        return {"kind": "relative", "dots": dots, "path": path, "name": name, "alias": alias}
    return None


class ImportsPlugin:
    SPEC_NAMES = {"ADDED_COUNT", "ADDED_LINE", "LINE_RESOLVES_TO_MODULE", "LINE_RESOLVES_TO_CLASS", "REF_IS_ALIAS_DOT_TYPE", "REF_IS_ALIAS",
                  "ALIAS_IS_IDENTIFIER", "REF_IS_QUOTED_TYPE"}

    def make_model_param(self, ex, st, p, model):
        v = getattr(ex, "variant", None) or {}
        if model == "strlist":
            names = v[p]
            out = []
            for n in names:
                a = z3.String(n)
                st.assume(z3.InRe(a, PKG_ATOM))
                ex.inputs[n] = a
                out.append(sv_str(a))
            for a, b in v.get("distinct", []):
                st.assume(z3.String(a) != z3.String(b))
            return sv_tuple(out)
        if model == "typename":
            a = z3.String(p)
            st.assume(z3.InRe(a, TYPE_ATOM))
            ex.inputs[p] = a
            return sv_str(a)
        if model == "strset":
            # a set of import lines, mutated in place by the builders: contents live in the heap so that a callee
            # (also an inlined one) and its caller see the same object
            st.heap[(p, "$lines")] = SV("tuple", [])
            return SV("strset", p)
        return None

    def spec_has(self, name):
        return name in self.SPEC_NAMES

    def spec_call(self, ex, name, pos, st):
        if name == "ADDED_COUNT":
            return sv_int(len(st.heap[(pos[0].t, "$lines")].t))
        if name == "ADDED_LINE":
            lines = st.heap[(pos[0].t, "$lines")].t
            if len(lines) != 1:
                return sv_str("")        # no single added line: every predicate about "the" added line is false
            return sv_str(lines[0])
        if name in ("LINE_RESOLVES_TO_MODULE", "LINE_RESOLVES_TO_CLASS"):
            # LINE_RESOLVES_TO_MODULE(line, current_package, target_package)
            # LINE_RESOLVES_TO_CLASS(line, current_package, target_package, type_name): imports the class itself
            ex.assumption("A-IMPORT")
            info = parse_import_line(pos[0].t)
            if info is None:
                return sv_bool(False)
            cur = [word_of(x) for x in pos[1].t]
            tgt = [word_of(x) for x in pos[2].t]
            if info["kind"] == "absolute":
                return sv_bool(name == "LINE_RESOLVES_TO_MODULE" and len(info["path"]) == len(tgt)
                               and all(same_word(a, b) for a, b in zip(info["path"], tgt)))
            up = info["dots"] - 1
            if up < 0 or up > len(cur):
                return sv_bool(False)
            base = cur[: len(cur) - up]
            resolved = base + info["path"] + [info["name"]]
            if name == "LINE_RESOLVES_TO_MODULE":
                want = tgt
            else:
                want = tgt + [word_of(pos[3])]
            return sv_bool(len(resolved) == len(want) and all(same_word(a, b) for a, b in zip(resolved, want)))
        if name in ("REF_IS_ALIAS_DOT_TYPE", "REF_IS_ALIAS"):
            # the returned forward reference is '"' alias [ '.' type ] '"' with the alias the line binds
            info = parse_import_line(pos[1].t)
            if info is None:
                return sv_bool(False)
            ref = tokens(pos[0].t)
            want = [("lit", '"')] + info["alias"] + ([("lit", ".")] + word_of(pos[2]) if name == "REF_IS_ALIAS_DOT_TYPE" else []) + [("lit", '"')]
            return sv_bool(same_word(tokens(z3.Concat(*[z3.StringVal(v) if k == "lit" else v for k, v in want])), ref))
        if name == "REF_IS_QUOTED_TYPE":
            ref = tokens(pos[0].t)
            want = tokens(z3.Concat(z3.StringVal('"'), pos[1].t, z3.StringVal('"')))
            return sv_bool(same_word(ref, want))
        if name == "ALIAS_IS_IDENTIFIER":
            info = parse_import_line(pos[0].t)
            if info is None:
                return sv_bool(False)
            from .models_names import IDENT_RE
            parts = [z3.StringVal(v) if k == "lit" else v for k, v in info["alias"]]
            term = parts[0] if len(parts) == 1 else z3.Concat(*parts)
            return sv_bool(z3.InRe(term, IDENT_RE))
        raise Unsupported(name)

    # ---- code-level models -------------------------------------------------------------------
    def attr_hook(self, ex, st, v, attr):
        if v.kind == "strset":
            return [(st, SV("func", ("method", v, attr)))]
        return None

    def call_method(self, ex, recv, name, pos, kw, st, node):
        if recv.kind == "strset" and name == "add":
            s = ex.coerce(pos[0], "str", st, "import line")
            st2 = st.clone()
            st2.heap[(recv.t, "$lines")] = SV("tuple", list(st.heap[(recv.t, "$lines")].t) + [s.t])
            return [(st2, NONE)]
        if recv.kind == "str" and name == "join":
            sep = recv.t
            items = pos[0]
            if items.kind != "tuple":
                raise Unsupported("str.join of a non-list")
            if not items.t:
                return [(st, sv_str(""))]
            parts = []
            for i, it in enumerate(items.t):
                if i:
                    parts.append(sep)
                parts.append(ex.coerce(it, "str", st, "join item").t)
            return [(st, sv_str(parts[0] if len(parts) == 1 else z3.Concat(*parts)))]
        return None

    def slice_hook(self, ex, seq, lo, hi, st):
        if seq.kind == "tuple":
            n = len(seq.t)
            l = concrete_int(ex.as_int(lo, st)) if lo is not None else 0
            h = concrete_int(ex.as_int(hi, st)) if hi is not None else n
            if l is None or h is None:
                raise Unsupported("symbolic slice of a list")
            return sv_tuple(seq.t[slice(l, h)])
        return None

    def call_builtin(self, ex, name, pos, kw, st, node):
        if name == "os.path.commonprefix" and pos and pos[0].kind == "tuple" and len(pos[0].t) == 2:
            a, b = pos[0].t
            if a.kind != "tuple" or b.kind != "tuple":
                raise Unsupported("commonprefix of non-lists")
            out = []
            for x, y in zip(a.t, b.t):
                if x.t.eq(y.t):
                    out.append(x)
                    continue
                # different atoms: they are different strings only if the shape says so
                ex.oblige(st, f"commonprefix-stops-here@{ex.cur_line}", x.t != y.t, "model")
                break
            return [(st, sv_tuple(out))]
        return None

    def index_hook(self, ex, seq, idx, st):
        if seq.kind == "tuple":
            c = concrete_int(ex.as_int(idx, st))
            if c is not None and -len(seq.t) <= c < len(seq.t):
                return [(st, seq.t[c])]
        return None


IMPORTS_ASSUMPTIONS = {
    "A-IMPORT": "inside the module p/__init__.py, `from .<k-1 more dots><x.y> import n as a` binds a to attribute/submodule n of package p[:len(p)-(k-1)] + x.y; "
                "`import a.b.c as z` binds z to module a.b.c",
}


# =====================================================================================================
# get_type_reference (the dispatch in front of the reference_* builders)
# =====================================================================================================
import ast as _ast
import re as _re

TC_OPT = z3.Function("TC_OPTIONAL", z3.StringSort(), z3.StringSort())
PYCLS = z3.Function("PYCLS", z3.StringSort(), z3.StringSort())
WRAPPED_PY = {"DoubleValue": "float", "FloatValue": "float", "Int32Value": "int", "Int64Value": "int", "UInt32Value": "int",
              "UInt64Value": "int", "BoolValue": "bool", "StringValue": "str", "BytesValue": "bytes"}
TYPE_ATOM_UP = z3.Concat(z3.Range("A", "Z"), z3.Star(z3.Union(z3.Range("A", "Z"), z3.Range("a", "z"), z3.Range("0", "9"), z3.Re("_"))))


def _join(terms, sep="."):
    parts = []
    for i, t in enumerate(terms):
        if i:
            parts.append(z3.StringVal(sep))
        parts.append(t)
    if not parts:
        return z3.StringVal("")
    return parts[0] if len(parts) == 1 else z3.Concat(*parts)


class TypeRefPlugin:
    """Model for get_type_reference: `package` is the dot-join of the current package atoms, `source_type` either a
    literal well-known type name or '.' + target package atoms + '.' + a capitalised type atom (C-PARSE-SOURCE: the
    package / type split of parse_source_type_name is by capitalisation, which is what these shapes satisfy; lower-case
    type names and capitalised package components are recorded known findings)."""
    Q = "betterproto.compile.importing.get_type_reference"
    SPEC_NAMES = {"TCOPT", "PYCLS_OF", "SRC_TYPE_ATOM", "SRC_PKG", "CUR_PKG", "FAMILY"}

    @classmethod
    def active(cls, ex):
        return getattr(ex, "qualname", "") == cls.Q

    def make_model_param(self, ex, st, p, model):
        v = getattr(ex, "variant", None) or {}
        if model == "dotted":
            atoms = []
            for n in v.get("current_package", []):
                a = z3.String(n)
                st.assume(z3.InRe(a, PKG_ATOM))
                ex.inputs[n] = a
                atoms.append(a)
            return SV("str", _join(atoms), ("dotted", atoms))
        if model == "srctype":
            if "literal" in v:
                return SV("str", z3.StringVal(v["literal"]), ("srclit", v["literal"]))
            atoms = []
            for n in v.get("py_package", []):
                a = z3.String(n)
                st.assume(z3.InRe(a, PKG_ATOM))
                ex.inputs[n] = a
                atoms.append(a)
            for a, b in v.get("distinct", []):
                st.assume(z3.String(a) != z3.String(b))
            t = z3.String("TypeName")
            st.assume(z3.InRe(t, TYPE_ATOM_UP))
            ex.inputs["TypeName"] = t
            term = z3.Concat(z3.StringVal("."), _join(atoms + [t])) if atoms else z3.Concat(z3.StringVal("."), t)
            return SV("str", term, ("srctype", atoms, t))
        if model == "tcopaque":
            return SV("tcobj2", p)
        return None

    def spec_has(self, name):
        return name in self.SPEC_NAMES

    def spec_call(self, ex, name, pos, st):
        if name == "TCOPT":
            return sv_str(TC_OPT(pos[0].t))
        if name == "PYCLS_OF":
            return sv_str(PYCLS(pos[0].t))
        if name == "FAMILY":
            return sv_str((getattr(ex, "variant", None) or {}).get("family", ""))
        src = ex.entry.env.get("source_type") if getattr(ex, "entry", None) is not None else None
        if src.extra[0] == "srclit":
            m = _re.match(r"^\.?([^A-Z]+)\.(.+)", src.extra[1])
            pkg, nm = (m.group(1), m.group(2)) if m else ("", src.extra[1].lstrip("."))
            if name == "SRC_TYPE_ATOM":
                return sv_str(nm)
            if name == "SRC_PKG":
                return sv_tuple([sv_str(x) for x in pkg.split(".")] if pkg else [])
        if name == "SRC_TYPE_ATOM":
            return sv_str(src.extra[2])
        if name == "SRC_PKG":
            return sv_tuple([sv_str(a) for a in src.extra[1]])
        if name == "CUR_PKG":
            pk = ex.entry.env.get("package")
            return sv_tuple([sv_str(a) for a in pk.extra[1]])
        raise Unsupported(name)

    def truth_hook(self, ex, v):
        if not self.active(ex):
            return None
        if v.kind == "str" and isinstance(v.extra, tuple) and v.extra and v.extra[0] == "dotted":
            return z3.BoolVal(len(v.extra[1]) > 0)
        if v.kind == "tuple":
            return z3.BoolVal(len(v.t) > 0)
        return None

    def attr_hook(self, ex, st, v, attr):
        if not self.active(ex):
            return None
        if v.kind in ("tcobj2", "wrapperinst", "pytypeobj"):
            if v.kind == "wrapperinst" and attr == "value":
                return [(st, SV("wrapdefault", v.t))]
            if v.kind == "pytypeobj" and attr == "__name__":
                ex.assumption("C-WRAPPER-DEFAULTS")
                return [(st, sv_str(WRAPPED_PY[v.t]))]
            return [(st, SV("func", ("method", v, attr)))]
        return None

    def value_attr_hook(self, ex, st, v, attr):
        return None

    def call_method(self, ex, recv, name, pos, kw, st, node):
        if not self.active(ex):
            return None
        if recv.kind == "str" and name == "split" and len(pos) == 1 and concrete_str(pos[0].t) == ".":
            if isinstance(recv.extra, tuple) and recv.extra and recv.extra[0] == "dotted":
                return [(st, sv_tuple([sv_str(a) for a in recv.extra[1]]))]
            c = concrete_str(recv.t)
            if c is not None:
                return [(st, sv_tuple([sv_str(x) for x in c.split(".")]))]
            raise Unsupported("split of an unstructured string")
        if recv.kind == "tuple" and name in ("append", "extend") and len(pos) == 1:
            add = [pos[0]] if name == "append" else (list(pos[0].t) if pos[0].kind == "tuple" else None)
            if add is None:
                raise Unsupported("extend with a non-list")
            for k_, v_ in list(st.env.items()):
                if v_ is recv:
                    st2 = st.clone()
                    st2.env[k_] = sv_tuple(list(recv.t) + add)
                    return [(st2, NONE)]
            raise Unsupported("append on an untracked list")
        if recv.kind == "tcobj2" and name == "optional" and len(pos) == 1:
            return [(st, sv_str(TC_OPT(ex.coerce(pos[0], "str", st, "type").t)))]
        return None

    def call_builtin(self, ex, name, pos, kw, st, node):
        if not self.active(ex):
            return None
        last = name.split(".")[-1]
        if "protobuf" in name and last in WRAPPED_PY and not pos:
            return [(st, SV("wrapperinst", last))]
        if name == "type" and len(pos) == 1 and pos[0].kind == "wrapdefault":
            return [(st, SV("pytypeobj", pos[0].t))]
        return None

    def call_other(self, ex, tag, pos, kw, st, node):
        if not self.active(ex):
            return None
        if tag[0] == "builtin" and "protobuf" in tag[1] and tag[1].split(".")[-1] in WRAPPED_PY and not pos:
            return [(st, SV("wrapperinst", tag[1].split(".")[-1]))]
        return None

    def call_repo(self, ex, qualname, pos, kw, st, node):
        if not self.active(ex):
            return None
        if qualname.endswith(".parse_source_type_name"):
            ex.assumption("C-PARSE-SOURCE")
            v = pos[0]
            if isinstance(v.extra, tuple) and v.extra and v.extra[0] == "srctype":
                return [(st, sv_tuple([SV("str", _join(v.extra[1]), ("dotted", v.extra[1])), sv_str(v.extra[2])]))]
            c = concrete_str(v.t)
            if c is not None:
                m = _re.match(r"^\.?([^A-Z]+)\.(.+)", c)
                pkg, nm = (m.group(1), m.group(2)) if m else ("", c.lstrip("."))
                atoms = [z3.StringVal(x) for x in pkg.split(".")] if pkg else []
                return [(st, sv_tuple([SV("str", z3.StringVal(pkg), ("dotted", atoms)), sv_str(nm)]))]
            raise Unsupported("parse_source_type_name of an unstructured string")
        if qualname.endswith(".pythonize_class_name"):
            ex.assumption("C-PYCLASS")
            c = concrete_str(pos[0].t)
            t = PYCLS(pos[0].t)
            st2 = st.clone()
            st2.assume(z3.InRe(t, TYPE_ATOM))
            return [(st2, sv_str(t))]
        return None

    def index_hook(self, ex, seq, idx, st):
        if not self.active(ex):
            return None
        if seq.kind == "cdict" and idx.kind == "str":
            c = concrete_str(idx.t)
            if c is None:
                raise Unsupported("table lookup with a symbolic key")
            for kk, vv in seq.t:
                if kk.kind == "str" and concrete_str(kk.t) == c:
                    return [(st, vv)]
            return [(st, Raised(SV("exc", "KeyError")))]
        return None

    def compare_hook(self, ex, op, a, b, st):
        if not self.active(ex):
            return None
        if isinstance(op, (_ast.Eq, _ast.NotEq)) and a.kind == "tuple" and b.kind == "tuple":
            if len(a.t) != len(b.t):
                r = z3.BoolVal(False)
            else:
                conj = [x.t == y.t for x, y in zip(a.t, b.t)]
                r = z3.simplify(z3.And(*conj)) if conj else z3.BoolVal(True)
            return r if isinstance(op, _ast.Eq) else z3.Not(r)
        return None

    def binop_hook(self, ex, op, a, b, st):
        if not self.active(ex):
            return None
        if isinstance(op, _ast.Add) and a.kind == "tuple" and b.kind == "tuple":
            return sv_tuple(list(a.t) + list(b.t))
        return None


TYPEREF_ASSUMPTIONS = {
    "C-PARSE-SOURCE": "parse_source_type_name('.' + lower-case package + '.' + Capitalised type) returns (package, type): the split is by capitalisation (its regex is not modelled); type names starting in lower case and capitalised package components are recorded known findings",
    "C-PYCLASS": "pythonize_class_name(n) is some identifier PYCLS(n) (its contract in the names area states which)",
    "C-WRAPPER-DEFAULTS": "type(<X>Value().value).__name__ is the Python scalar of the wrapper (float/int/bool/str/bytes), from wrappers.proto",
}
