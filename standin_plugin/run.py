"""CLI:  python -m standin_plugin.run <PROP> --n <int> --seed <int>

Prints exactly ONE JSON object on stdout (the result dict of the checker); everything else
goes to stderr.  Exit code is always 0.
"""
from __future__ import annotations

import argparse
import json
import os
import sys
import traceback


def main(argv=None) -> int:
    ap = argparse.ArgumentParser(prog="standin_plugin.run")
    ap.add_argument("prop", choices=["C03", "C18", "C13", "C11"])
    ap.add_argument("--n", type=int, default=6)
    ap.add_argument("--seed", type=int, default=0)
    try:
        args = ap.parse_args(argv)
    except SystemExit:
        print(json.dumps({"property": None, "cases": 0, "distinct_nontrivial": 0, "failures": [], "n_failures": 0,
                          "samples": [], "skipped": [{"what": "cli", "why": "bad arguments", "count": 1}], "assumptions": []}))
        return 0
    real_stdout = sys.stdout
    sys.stdout = sys.stderr  # nothing but the final JSON may reach stdout
    try:
        from . import checks, gen
        try:
            result = checks.CHECKS[args.prop](args.seed, args.n)
        finally:
            gen.cleanup_all()
    except BaseException as e:  # harness crash: still one JSON object, exit 0
        traceback.print_exc(file=sys.stderr)
        result = {"property": args.prop, "cases": 0, "distinct_nontrivial": 0, "failures": [], "n_failures": 0,
                  "samples": [], "skipped": [{"what": "harness-crash", "why": "%s: %s" % (type(e).__name__, e), "count": 1}],
                  "assumptions": []}
    result["n"] = args.n
    result["seed"] = args.seed
    result["repo"] = os.environ.get("PYVC_REPO", "/repo")
    real_stdout.write(json.dumps(result, default=lambda o: sorted(o) if isinstance(o, (set, frozenset)) else repr(o)) + "\n")
    real_stdout.flush()
    return 0


if __name__ == "__main__":
    sys.exit(main())
